chk("C03", "exploration",
    "Bounded-exhaustive enumeration of every profile with <=2 (quick) / <=3 (thorough) validations over all subsets of severity levels (plus the reports the built CLI leaves in one output file after every ordered pair of long/short/empty reports), undefined extra names, empty-level spellings, on the full truth-table graph and a no-target graph, under 15 report configurations; every report is compared with an oracle written from the property statement (conforms <=> no Violation result, per-result severity = listing level, result key presence, profileName, dateCreated presence/value, frame condition on everything else).",
    "Trusts yaml.v3/encoding/json used by the harness to render profiles and parse reports; atom minCount:1 is checked separately (C01).",
    "bounded exhaustive enumeration (all level assignments x configurations) against a reference oracle, on the real implementation",
    "DESIGN.md §3 C03")

chk("C01", "exploration",
    "Bounded-exhaustive enumeration of the declarative formula language: every propositional formula up to a connective-count bound on all truth assignments (one truth-table graph evaluation decides all 8, with non-target and doubly-typed decoy nodes), every quantifier (nested/atLeast/atMost) over every inner formula with <=1 connective in 10 connective contexts and with 2 connectives bare, on every child multiset, quantifier chains to depth 2-3; each compared per node with a classical reference evaluator.",
    "Trusts the harness's own YAML rendering (parsed back by the implementation) and json-gold flattening of flat input; atoms other than minCount are covered only by the atom catalogue family.",
    "bounded exhaustive enumeration of formulas x truth assignments against a reference evaluator, on the real implementation",
    "DESIGN.md §3 C01")

chk("C02", "exploration",
    "Bounded-exhaustive enumeration of path expressions (every AST with <=3 leaves on all graphs with <=2 edges up to renaming, <=4 leaves on a collision suite; thorough: <=4 leaves everywhere and <=3 edges) with every node as focus node, the <=2-leaf paths again under 5 other namespace shapes (ending in #, _, :, = or nothing); the set of values and their count observed through `in` and `maxCount` traces are compared with a set-valued reference denotation.",
    "Values restricted to IRIs and plain string literals; whitespace/parenthesis variants of the concrete syntax belong to C16.",
    "bounded exhaustive enumeration of path ASTs x small graphs against a reference denotation, on the real implementation",
    "DESIGN.md §3 C02")

chk("C12", "exploration",
    "Every report produced by the C01/C02/C14 enumerations plus families built for the id scheme (all three levels at once with >=11 results each, several traces per result, several sub-results per trace, nesting depth 3) and the files/stdout the built CLI leaves after every sequence of long/short/conforming reports into one output path, is walked completely by a well-formedness oracle written from the statement.",
    "The input's node table is taken from the abstract graph the document was rendered from.",
    "bounded exhaustive enumeration of reports (by enumerating profiles x graphs) checked by a structural oracle",
    "DESIGN.md §3 C12")
chk("C14", "exploration",
    "Exhaustive sweep, axis by axis, of lexical source maps on a fixed skeleton: all 4-tuples of line/column magnitudes, all node-to-file assignments, all subsets of nodes with node-level/property-level entries, with/without source information, and 37 constraint kinds producing the results and traces; every location in results, sub-results and traces is compared with the recorded numbers (as decimal strings) and file, and the rest of the report with the source-map-free report.",
    "Axes are swept one at a time around a default (no full cross product).",
    "bounded exhaustive enumeration of source-map assignments against the recorded values (differential with the map-free report)",
    "DESIGN.md §3 C14")

chk("C16", "exploration",
    "Every sentence of the path grammar up to 2 (quick) / 3 (thorough) leaves in every layout of a whitespace/parenthesis menu, and every single-edit mutation of every canonical sentence, is classified by a literal interpreter of the documented PEG with end-of-input and compared with what CompileProfile accepts; accepted strings are compared structurally (AST) and, for a subset, by denotation; identifiers of 31..257 characters are included. (A string the path parser alone would accept but a later stage rejects is recorded as a note: the property is observed at CompileProfile.)",
    "The reference language is third_party/propertyparser.peg plus end of input, with '^' as the only modifier; the '*' modifier is undocumented.",
    "bounded exhaustive enumeration of strings (all layouts, all single edits) against a reference recogniser, on the real implementation",
    "DESIGN.md §3 C16")

chk("C17", "exploration",
    "Deviation-bounded exhaustive enumeration: every single structured mutation of 6 seed profiles and 6 seed documents (every YAML/JSON tree position x a menu of wrong-kind values, key deletions/renames/duplications, JSON-LD keyword substitutions, whole-document specials), every raw string up to length 2/3 over the YAML and JSON structural alphabets, a call that does not return (watchdog + goroutine dump: parked > 1 min inside the repository, nothing running; re-run alone and with its shard prefix) is a violation; and (thorough) every pair of a profile and a data mutation, through all five entry points with and without an event channel; a recover() around each call observes panics, a watchdog observes blocking.",
    "'arbitrary byte strings' is bounded to k structured deviations from the seeds and raw strings of length <=3; no coverage-guided fuzzing (different family).",
    "deviation-bounded exhaustive enumeration of environment answers (the two input texts) on the real entry points",
    "DESIGN.md §3 C17")

chk("C04", "exploration",
    "Exhaustive enumeration of unreadable data: all byte strings up to length 3/4 over the JSON structural alphabet, every prefix and single-byte deletion of three valid documents, non-JSON formats and encodings, a menu of JSON-LD keyword misuses at three depths, and documents of 129..4097 (16385) nodes with one invalid node at the first / middle / power-of-two / last position, against 3 compiled profiles through the four library entry points and the built CLI; each input is classified independently (own JSON recogniser cross-checked with encoding/json; json-gold called directly) and every unreadable or rejected input must yield an error and no report.",
    "json-gold is the definition of 'JSON-LD rejects'; the CLI is exercised on a subset (all of classes b-d sampled by offset, strings of length <=2).",
    "bounded exhaustive enumeration of malformed inputs x entry points with an independent classifier",
    "DESIGN.md §3 C04")

chk("C09", "model_checking",
    "Explicit-state search over histories on the real compiled object: for 5 profiles, every sequence of documents of length <=3 (quick) / <=4 (thorough) over a 9-document alphabet (including failing calls and a large document) is executed on one freshly compiled query; every transition is compared byte-for-byte with an independent validation from the profile text and error-ness must agree. Configuration histories: every sequence of 3 (document, clock/report-configuration) letters over 3 x 4, against the same call made in a fresh process. A call that never returns (goroutine parked > 1 min inside the repository, nothing running) is a violation.",
    "States are not merged (the compiled query exposes no inspectable state), so the search is a complete tree walk to the depth bound; every model transition is an implementation call.",
    "explicit-state exhaustive search over operation histories (depth-bounded) on the real object with a differential oracle",
    "DESIGN.md §3 C09")

chk("C18", "model_checking",
    "Explicit-state search over file-system histories on the freshly built acv binary: breadth-first from 7 initial states of the output path to a fixpoint of the canonical state set, every transition being one real CLI invocation (validate with/without output path for 11 inputs, generate, normalize, compile, invalid invocations; and, as environment answers, PROFILE or DATA delivered through a named pipe in 2-3 bursts cut at 6 offsets so that the tool meets short reads); each transition is checked against the library called in-process on the same texts.",
    "dateCreated cannot be fixed from the CLI: its value is masked after being checked to be RFC3339 within the invocation window. Runs as root (read-only file is writable).",
    "explicit-state BFS to a fixpoint over output-path states with the real binary as transition function and the library as reference model",
    "DESIGN.md §3 C18")

chk("C05", "model_checking",
    "Explicit-state search over JSON-LD surface rewrites: (plus whitespace forms through the CLI and documents of up to 1025/4097 items with anonymous nodes in six forms) from the canonical serialisation of 5 base graphs, every sequence of <=2 (quick; <=3 thorough; one level deeper for the small tree graph) rewrites drawn from 15 operators at every applicable position, deduplicated on the document text; each transition is validated to preserve the RDF dataset (json-gold N-Quads) and each state's verdict (conforms + result set with messages) under a 7-observer profile must equal the initial state's.",
    "Differential oracle (no hand-written expected values); typed literals, blank nodes and remote contexts are outside the alphabet; the RDF-equivalence check trusts json-gold's ToRDF.",
    "explicit-state depth-bounded search over rewrite sequences with text-level state deduplication and a differential oracle on the real implementation",
    "DESIGN.md §3 C05")

chk("C15", "model_checking",
    "Explicit-state search over meaning-preserving rewrites of the profile text: from 10 base profiles, every rewrite (quick: every single rewrite, and every pair for the sibling-quantifier and the shadowed-default-prefix profiles; thorough: every pair everywhere) among key swaps, item swaps, prefix renaming/default-prefix substitution, quoting styles, flow/block style, comments, indentation, CRLF and trailing blanks; each successor is validated to denote the same abstract profile and its verdict on a data graph must equal the base spelling's.",
    "Differential oracle; the equivalence check of successors uses yaml.v3 decoding plus IRI expansion with the declared and default prefixes.",
    "explicit-state depth-bounded search over rewrite sequences with text-level deduplication and a differential oracle on the real implementation",
    "DESIGN.md §3 C15")

chk("C10", "model_checking",
    "Stateless model checking of the real code under a hand-written cooperative scheduler: the repository is rebuilt with every access to a package-level variable hooked (type-aware instrumenter, regenerated from the working tree), ten 2-3 thread scenarios (incl. documents whose @context is a referenced file) are explored; `go` statements and sync.WaitGroup of the repository are hooked too, so goroutines it starts are scheduler threads; over all schedules up to a preemption bound (2 quick / 3 thorough; 1-2 for three threads), and for every execution each thread's result is compared with its serial result, with a vector-clock race verdict and deadlock detection; a free-running -race pass of the same bodies (each four times behind a start barrier) is an auxiliary cross-check for unhooked code.",
    "Scheduling points exist only at hooked accesses of repository package-level variables and shim sync operations; interleavings inside dependencies are not explored (auxiliary -race pass only). The same schedule is replayed twice before a violation is believed.",
    "stateless exploration of thread interleavings with iterative preemption bounding under a controlled scheduler, on the instrumented implementation",
    "DESIGN.md §3 C10")

chk("C06", "model_checking",
    "The repository is rebuilt with every `range` over a map rewritten to iterate in an explorer-dictated order (type-aware instrumenter, site list in the evidence); for a family of profiles with sibling quantified constraints (the shape whose translation depends on key order), every order of every YAML key map is enumerated and every other map-iteration site is deviated one at a time (thorough: pairs); all executions must give one report byte string and one generated-code byte string. Goroutine interleaving is covered by C10 with the same equality oracle; an uninstrumented 30x repetition pass cross-checks that no map order escapes the seam. The wall clock is behind a second seam (the repository's time.Now() jumps an hour on every reading): 9 configured clock values x dateCreated on/off x 3 identical consecutive calls must agree. A history pass runs every ordered pair of 90 (profile, document) calls in one process against the result of the same call in a fresh process.",
    "Map iteration inside dependencies is not behind the seam (cross-checked by repetition only). Maps with more than 4 keys are permuted by rotations/reversals (2n orders), not n! orders.",
    "exhaustive enumeration of controlled nondeterminism (map iteration orders as choice points, deviation-bounded DFS) on the instrumented implementation",
    "DESIGN.md §3 C06")

chk("C11", "model_checking",
    "A small automaton per entry point (accepting exactly the prefixes of Start/Done pairs in pipeline order plus the closing rule) is explored exhaustively, and every implementation run over 6 entry flows x 18 faults (at least one per pipeline stage) x 3 channel capacities x 2 consumers is replayed through it: event order, closure (observed without timers by closing the channel under recover) and milestones; faults are asserted to arise in their intended stage.",
    "The model is permissive where the statement is (a failing stage may or may not emit its completion event). Closure is observed by attempting a second close.",
    "explicit-state exploration of a model automaton plus conformance replay of every enumerated implementation run (fault x entry point x configuration) against it",
    "DESIGN.md §3 C11")

chk("C08", "exploration",
    "Exhaustive sweep of the linked engine's built-in table x 15 embedding positions x 10 call syntaxes (+ 9 doubly-invalid forms in which the call sits next to a parse error, an unknown function, a type error, an unsafe variable or garbage): every combination for the five built-ins the property names must be rejected at compile time (by CompileProfile and by Validate) with the error naming the built-in as unsafe and with zero resolver/dial attempts on an instrumented resolver and loopback listener; all other built-ins serve as vacuity controls proving the templates are valid Rego (run is 'broken' below 90%).",
    "B is read from ast.Builtins of the OPA version /repo links (re-established on every dependency bump). Arguments are synthesised from declared types; quick runs controls in two positions each, thorough in all.",
    "exhaustive enumeration of (built-in x embedding position x call syntax) against the deny-list, with vacuity controls, on the real compile path",
    "DESIGN.md §3 C08")

chk("C07", "exploration",
    "The statement's own axes are each swept completely to 40 (or to the full product): every constraint kind x every small path shape, 1..40 quantified siblings, quantifier chains of depth 1..40 and every ordered quantifier tree with <=5/6 nodes, 1..40 validations over three level distributions, connectives under 0/10/11/12/25/26/27 enclosing quantifiers, and boundary values of every constraint argument (empty/one/duplicate/40-member lists of every scalar type, zero/negative/fractional/huge numbers, empty patterns); every profile must compile and survive a first evaluation.",
    "Axes are swept one at a time; sizes beyond 40 are not explored.",
    "bounded exhaustive enumeration of well-formed profiles along each size axis, on the real compile path",
    "DESIGN.md §3 C07")

chk("C13", "exploration",
    "Deviation-bounded exhaustive enumeration of special characters in profile text: every (slot, token, position) for 12 slots x 48 tokens x 3 positions (bound 1; the tokens include one representative of every class of unusual code point up to U+10FFFF), and in thorough every ordered token pair within a slot and every pair across two slots (bound 2); each profile must compile, and the report must show the names verbatim, the message as the reference rendering defines it, and the same set of reported nodes as the plain text.",
    "YAML is emitted with double-quoted scalars and parsed back with yaml.v3 to confirm the intended string; placeholders refer to single-valued properties.",
    "deviation-bounded exhaustive enumeration of (slot x special token x position) against a reference rendering, on the real implementation",
    "DESIGN.md §3 C13")
