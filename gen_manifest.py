#!/usr/bin/env python3
# Generates MANIFEST.json from the table below (kept as code so the manifest never drifts out of schema).
import json, sys
ENV = "GOFLAGS=-mod=mod GOPROXY=off GOSUMDB=off GOTOOLCHAIN=local"
checks = {}
def chk(id, cat, text, note, tech, design):
    checks[id] = dict(property_id=id,
        quick_cmd=f"bin/vcheck {id} --tier quick",
        thorough_cmd=f"bin/vcheck {id} --tier thorough",
        evidence_file=f"/verif/evidence/{id}.json",
        replay_cmd_template=f"bin/vcheck {id} --replay {{path}}",
        engine="vcheck",
        level_claimed=dict(category=cat, text=text, design_ref=design),
        level_note=note, technique=tech)

exec(open('/verif/manifest_checks.py').read())

ALL = [f"C{i:02d}" for i in range(1,19)]
na = []
for p in ALL:
    if p not in checks:
        na.append(dict(property_id=p, reason="check not yet built in this round (planned in DESIGN.md §3); not claimed until it runs clean on the unchanged tree"))
m = dict(version=1,
    setup_cmd=f"cd /verif && mkdir -p bin && {ENV} go build -o bin/vcheck ./cmd/vcheck && if [ -d engine/instr ]; then (cd engine/instr && {ENV} go build -o /verif/bin/vinstr .) || exit 1; fi && bin/vcheck setup",
    hooks=dict(guard="verif",
        enable="go build -tags verif -overlay <generated overlay.json> ./cmd/vworker (run in /repo; the overlay adds the virtual packages verifx and cmd/vworker from /verif/overlay and, for C06/C10, instrumented copies of the working-tree files produced by bin/vinstr; nothing is written to /repo)",
        baseline_off_cmd="cd /repo && go test -mod=mod -vet=off -count=1 -timeout 25m ./...",
        source_commits=[], add_only=True),
    engines=[dict(name="vcheck", path="/verif/cmd/vcheck + /verif/overlay/verifx", serves_properties=sorted(checks), kind_free_text="hand-written bounded-exhaustive explorer: sharded enumerators, reference models, explicit-state BFS, cooperative scheduler DFS; worker rebuilt from /repo working tree by go build -overlay")],
    checks=[checks[k] for k in sorted(checks)],
    not_applicable=na,
    notes="All checks: exit 0 = held on everything explored, 1 = VIOLATION line(s), 2 = harness broken (no verdict). Known findings live in /verif/known_findings.json.")
json.dump(m, open('/verif/MANIFEST.json','w'), indent=1)
print("claimed:", sorted(checks), "not claimed:", [x['property_id'] for x in na])
