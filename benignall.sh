#!/bin/sh
# run benigncheck.sh for the given (default: all) behaviour-preserving changes under /verif/benign, one after another
cd /verif
for b in ${*:-B1 B2 B3 B4 B5 B6 B7 B8 B9 B10 B11 B12}; do
  ./benigncheck.sh $b 2>&1
done
