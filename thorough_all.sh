#!/bin/sh
# background run of every thorough tier on snapshots (vp run --with-repo); results are NOT evidence
export GOFLAGS=-mod=mod GOPROXY=off GOSUMDB=off GOTOOLCHAIN=local
export VERIF_DIR=$PWD VERIF_REPO=${VP_RUN_REPO:-/repo}
mkdir -p bin && go build -o bin/vcheck ./cmd/vcheck && (cd engine/instr && go build -o $VERIF_DIR/bin/vinstr .) && bin/vcheck setup || exit 2
for id in ${*:-C03 C08 C11 C13 C14 C16 C18 C09 C10 C12 C07 C06 C04 C05 C15 C17 C02 C01}; do
  start=$(date +%s)
  out=$(bin/vcheck $id --tier thorough 2>&1); rc=$?
  echo "$id exit=$rc $(( $(date +%s) - start ))s $(echo "$out" | grep "^$id tier=" | tail -1)"
  if [ $rc -ne 0 ]; then echo "$out" | grep -E "VIOLATION|BROKEN|signature|KNOWN" | cut -c1-300 | head -12; fi
done
