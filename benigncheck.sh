#!/bin/sh
# apply a behaviour-preserving refactoring to /repo, confirm its test suite passes, run every quick check, restore /repo
id=$1
export GOFLAGS=-mod=mod GOPROXY=off GOSUMDB=off GOTOOLCHAIN=local
[ -z "$(git -C /repo status --porcelain)" ] || { echo "/repo not clean"; exit 2; }
git -C /repo apply /verif/benign/$id/patch.diff || exit 2
echo "== $id: repo tests"; go -C /repo test -mod=mod -vet=off -count=1 ./... 2>&1 | grep -v "no test files" | grep -v "^ok" | head -5
echo "== $id: checks"; /verif/runall.sh 2>&1 | cut -c1-200 | grep -vE "exit=0 " 
git -C /repo checkout -- . ; git -C /repo clean -fdq -- internal pkg cmd
[ -z "$(git -C /repo status --porcelain)" ] && echo "== $id: repo restored"
rm -f /verif/replay/*.json
