#!/usr/bin/env python3
"""Confirm a seeded change produced by an independent sub-agent and run the checks against it.

usage: seedcheck.py <ID> [<seed-name>] [--checks C01,C12] [--tier quick]

Reads /tmp/seed/<ID>.out/{patch.diff,demo_test.go,meta.json}; in a scratch worktree
under /tmp/sv confirms: (1) the demo passes on the unchanged tree, (2) with the
patch the repository builds and its whole test suite passes, (3) with the patch
the demo fails. Then applies the patch to /repo, runs the named checks, and
reverts /repo. Writes /verif/seeded/<name>/{patch.diff,demo_test.go,meta.json}.
"""
import json, os, re, shutil, subprocess, sys, time

ENV = dict(os.environ, GOFLAGS="-mod=mod", GOPROXY="off", GOSUMDB="off", GOTOOLCHAIN="local")
# SEED_REPO / SEED_VERIF let a regression run work on private copies (a git worktree of /repo, a worktree of /verif
# with its own bin/) so that it does not disturb, and is not disturbed by, work going on in /repo and /verif
REPO = os.environ.get("SEED_REPO", "/repo")
VERIF = os.environ.get("SEED_VERIF", "/verif")
if REPO != "/repo":
    ENV.update(VERIF_REPO=REPO, VERIF_DIR=VERIF)


def sh(cmd, cwd=None, timeout=3600):
    p = subprocess.run(cmd, shell=True, cwd=cwd, env=ENV, stdout=subprocess.PIPE, stderr=subprocess.STDOUT, text=True, timeout=timeout)
    return p.returncode, p.stdout


def main():
    args = [a for a in sys.argv[1:] if not a.startswith("--")]
    opts = dict(zip(sys.argv[1:], sys.argv[2:]))
    pid = args[0]
    name = args[1] if len(args) > 1 else pid
    src = opts.get("--src", f"/tmp/seed/{pid}.out")
    checks = opts.get("--checks", pid).split(",")
    tier = opts.get("--tier", "quick")
    meta = json.load(open(f"{src}/meta.json"))
    demo_dir = re.sub(r"^/?tmp/seed\d*/%s/" % pid, "", meta["demo_dir"]).strip("/")
    demo_src = open(f"{src}/demo_test.go").read()
    tests = re.findall(r"^func (Test\w+)\(", demo_src, re.M)
    runpat = "^(" + "|".join(tests) + ")$"
    wt = f"/tmp/sv/{os.path.basename(REPO)}-{name}"
    os.makedirs("/tmp/sv", exist_ok=True)
    sh(f"git -C {REPO} worktree remove --force {wt}")
    rc, out = sh(f"git -C {REPO} worktree add --detach {wt} HEAD")
    assert rc == 0, out
    res = {"property": pid, "name": name, "tests_in_demo": tests}
    try:
        demo_dst = f"{wt}/{demo_dir}/zz_seed_demo_test.go"
        shutil.copy(f"{src}/demo_test.go", demo_dst)
        rc, out = sh(f"go test -vet=off -count=1 -run '{runpat}' ./{demo_dir}/", cwd=wt)
        res["demo_passes_without_change"] = rc == 0
        if rc != 0:
            res["demo_without_output"] = out[-1500:]
        os.remove(demo_dst)
        rc, out = sh(f"git -C {wt} apply {src}/patch.diff")
        assert rc == 0, "patch does not apply: " + out
        rc, out = sh("go build ./...", cwd=wt)
        res["builds_with_change"] = rc == 0
        rc, out = sh("go test -vet=off -count=1 ./...", cwd=wt)
        res["suite_passes_with_change"] = rc == 0
        if rc != 0:
            res["suite_output"] = out[-1500:]
        shutil.copy(f"{src}/demo_test.go", demo_dst)
        rc, out = sh(f"go test -vet=off -count=1 -run '{runpat}' ./{demo_dir}/", cwd=wt, timeout=900)
        res["demo_fails_with_change"] = rc != 0
        res["demo_with_output_tail"] = out[-800:]
    finally:
        sh(f"git -C {REPO} worktree remove --force {wt}")
    confirmed = res.get("demo_passes_without_change") and res.get("builds_with_change") and res.get("suite_passes_with_change") and res.get("demo_fails_with_change")
    res["confirmed"] = bool(confirmed)
    # run the checks against it
    res["checks"] = {}
    rc, out = sh(f"git -C {REPO} status --porcelain")
    assert out.strip() == "", "repo is not clean: " + out
    rc, out = sh(f"git -C {REPO} apply {src}/patch.diff")
    assert rc == 0, out
    try:
        for c in checks:
            t0 = time.time()
            rc, out = sh(f"{VERIF}/bin/vcheck {c} --tier {tier}", cwd=VERIF, timeout=7200)
            sigs = re.findall(r"^  signature: (.*)$", out, re.M)
            res["checks"][c] = {"exit": rc, "detected": rc == 1 and "VIOLATION property=" in out, "signatures": sigs[:8], "wall_s": round(time.time() - t0, 1), "tier": tier,
                                "summary": [l for l in out.splitlines() if l.startswith(c + " tier=")][-1:] or out[-400:]}
    finally:
        sh(f"git -C {REPO} checkout -- .")
        sh(f"git -C {REPO} clean -fdq -- internal pkg cmd")
    rc, out = sh(f"git -C {REPO} status --porcelain")
    assert out.strip() == "", "/repo not restored: " + out
    sh(f"rm -f {VERIF}/replay/*.json")
    dst = f"{VERIF}/seeded/{name}"
    os.makedirs(dst, exist_ok=True)
    shutil.copy(f"{src}/patch.diff", f"{dst}/patch.diff")
    shutil.copy(f"{src}/demo_test.go", f"{dst}/demo_test.go")
    meta_out = {"breaks_property": pid, "author": "independent sub-agent given only the property text and a scratch worktree",
                "summary": meta.get("summary"), "needs_to_manifest": meta.get("needs"), "demo_dir": demo_dir,
                "demo_cmd": f"cp demo_test.go <worktree>/{demo_dir}/zz_seed_demo_test.go && go test -mod=mod -vet=off -count=1 -run '{runpat}' ./{demo_dir}/",
                "confirmation": res}
    json.dump(meta_out, open(f"{dst}/meta.json", "w"), indent=1)
    print(json.dumps({k: res[k] for k in ("confirmed", "demo_passes_without_change", "suite_passes_with_change", "demo_fails_with_change")}))
    for c, r in res["checks"].items():
        print(c, "detected" if r["detected"] else "MISSED", "exit", r["exit"], r["wall_s"], "s", r["signatures"][:3])


main()
