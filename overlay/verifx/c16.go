//go:build verif

package verifx

import (
	"fmt"
	"strings"
)

// C16 — a property path is accepted only if the whole string is a path.

type c16Case struct {
	Strs []string `json:"strs"`
	Src  string   `json:"src"`
	// OnlyLast: Strs is a recorded history (every string this worker handled before, in order); all of it is
	// re-executed but only the last string is judged. A verdict on a string must not depend on what was parsed
	// before, and if it does the replay has to reproduce the same history.
	OnlyLast bool `json:"only_last,omitempty"`
}

var c16Hist []string

var c16Leaves = []*PExpr{PP("ex.p"), PP("ex.q"), PI("ex.p"), PT()}

// tokens renders a path as a token list; spaces are tokens of their own ("␠" slots)
// so that layouts and mutations are plain list edits. ws is the blank to use
// where the grammar allows optional whitespace.
func c16Tokens(p *PExpr, ctx int, ws string, extraParens int) []string {
	wrap := func(t []string, need bool) []string {
		n := extraParens
		if need {
			n++
		}
		for i := 0; i < n; i++ {
			t = append(append([]string{"(", ws}, t...), ws, ")")
		}
		return t
	}
	switch p.Kind {
	case "pred":
		t := []string{p.Pred}
		if p.Inv {
			t = append(t, ws, "^")
		}
		return t
	case "type":
		return []string{"@type"}
	case "seq", "alt":
		op := "/"
		if p.Kind == "alt" {
			op = "|"
		}
		var t []string
		for i, k := range p.Kids {
			if i > 0 {
				t = append(t, ws, op, ws)
			}
			kctx := 1
			if p.Kind == "alt" {
				kctx = 2
			}
			t = append(t, c16Tokens(k, kctx, ws, 0)...)
		}
		need := (p.Kind == "seq" && ctx != 0) || (p.Kind == "alt" && ctx == 2)
		return wrap(t, need)
	}
	return nil
}

func c16Layouts(p *PExpr) []string {
	set := map[string]bool{}
	var out []string
	add := func(s string) {
		if !set[s] {
			set[s] = true
			out = append(out, s)
		}
	}
	for _, ws := range []string{" ", "", "  ", "\t", "\n "} {
		for extra := 0; extra <= 2; extra++ {
			toks := c16Tokens(p, 0, ws, 0)
			for i := 0; i < extra; i++ {
				toks = append(append([]string{"(", ws}, toks...), ws, ")")
			}
			add(strings.Join(toks, ""))
		}
	}
	// mixed layout: blanks only on the left / only on the right of operators
	canon := c16Tokens(p, 0, " ", 0)
	var l, r []string
	for i, t := range canon {
		if t == " " && i+1 < len(canon) && (canon[i+1] == "/" || canon[i+1] == "|") {
			r = append(r, "")
			l = append(l, " ")
			continue
		}
		if t == " " && i > 0 && (canon[i-1] == "/" || canon[i-1] == "|") {
			l = append(l, "")
			r = append(r, " ")
			continue
		}
		l = append(l, t)
		r = append(r, t)
	}
	add(strings.Join(l, ""))
	add(strings.Join(r, ""))
	return out
}

var c16Kappa = []string{"/", "|", "(", ")", "^", "ex.p", "junk", ",", "\"", ".", " ", "@type", "ex.p_1"}

func c16Mutations(p *PExpr) []string {
	toks := c16Tokens(p, 0, " ", 0)
	set := map[string]bool{}
	var out []string
	add := func(t []string) {
		s := strings.Join(t, "")
		if !set[s] {
			set[s] = true
			out = append(out, s)
		}
	}
	for i := range toks {
		// delete
		add(append(append([]string{}, toks[:i]...), toks[i+1:]...))
		// duplicate
		add(append(append(append([]string{}, toks[:i+1]...), toks[i]), toks[i+1:]...))
		// replace
		for _, k := range c16Kappa {
			t := append([]string{}, toks...)
			t[i] = k
			add(t)
		}
	}
	for i := 0; i <= len(toks); i++ {
		for _, k := range c16Kappa {
			add(append(append(append([]string{}, toks[:i]...), k), toks[i:]...))
		}
	}
	return out
}

func init() {
	Register(Meta{
		ID: "C16", Level: "exploration",
		Rule:        "(a) every path AST with <=L leaves over {ex.p, ex.q, ex.p^, @type} (+ ex.p_1, ex.a\\/b as single leaves) rendered in every layout of a menu (blank, none, two blanks, tab, newline around operators and inside parentheses and before ^; 0-2 redundant outer parentheses; left-only/right-only blanks); (b) every single-edit mutation (delete, duplicate, replace by or insert each of 14 tokens at every token boundary) of every canonical sentence. Each distinct string is classified by a literal PEG interpreter of the documented grammar with end-of-input; accept <=> CompileProfile of a one-constraint profile succeeds; for accepted strings the implementation's AST is compared with the reference AST, and the denotation is observed on a collision graph for a subset. Non-trivial = string that is not a sentence but has a sentence as a proper prefix, or a sentence with non-canonical layout; distinct by string.",
		Assumptions: []string{"the transitive modifier '*' is undocumented and outside the reference language"},
	}, c16Gen, c16Run)
}

const c16Pack = 16

func c16Gen(tier string, emit func(c16Case)) {
	maxL := 2
	if tier == "thorough" {
		maxL = 3
	}
	seen := map[string]bool{}
	var buf []string
	src := ""
	flush := func() {
		if len(buf) > 0 {
			emit(c16Case{Strs: buf, Src: src})
			buf = nil
		}
	}
	push := func(s, from string) {
		if seen[s] {
			return
		}
		seen[s] = true
		if from != src {
			flush()
			src = from
		}
		buf = append(buf, s)
		if len(buf) == c16Pack {
			flush()
		}
	}
	var asts []*PExpr
	for l := 1; l <= maxL; l++ {
		asts = append(asts, PathASTs(l, c16Leaves)...)
	}
	// extra single leaves that are sentences of the grammar
	extra := []*PExpr{PP("ex.p_1"), PP(`ex.a\/b`), PP("ex.a/b"), PP("ex-1.p-q"), PP("ex.p.q"), PI("ex.p_1")}
	// identifier lengths on both sides of every power of two up to 256, for the local name and for the prefix (a
	// parser that copies identifiers into fixed-size storage shows here: the structure carries the whole IRI)
	for _, n := range c16Lengths {
		local := strings.Repeat("k", n-1) + "z"
		extra = append(extra, PP("ex."+local), PI("ex."+local))
	}
	for _, n := range c16PrefixLengths {
		extra = append(extra, PP(c16LongPrefix(n)+".p"))
	}
	for _, e := range extra {
		asts = append(asts, e, PS(e, PP("ex.q")), PA(PP("ex.q"), e))
	}
	for _, a := range asts {
		for _, s := range c16Layouts(a) {
			push(s, "layout")
		}
	}
	for _, a := range asts {
		for _, s := range c16Mutations(a) {
			push(s, "mutation")
		}
	}
	for _, s := range []string{"", " ", "ex", "ex.", ".p", "@type^", "@typex", "(", ")", "()", "ex.p / / ex.q", "ex.p ) junk", "ex.p |", "ex.p ex.q", "ex.p,", "(ex.p", "junk", " ex.p", "ex.p ", "(ex.p) ", "ex.p^^", "ex.p ^", "ex.p^ / ex.q", "ex.p/ex.q", "ex.p /ex.q", "ex.p/ ex.q", "ex.p|ex.q"} {
		push(s, "handpicked")
	}
	flush()
}

var c16Lengths = []int{31, 32, 33, 63, 64, 65, 128, 129, 256, 257} // (a YAML mapping key is limited to 1024 characters, layouts add to the length)
var c16PrefixLengths = []int{32, 33, 65, 257}

func c16LongPrefix(n int) string { return strings.Repeat("w", n-1) + "x" }

func c16Profile(path string) string {
	pre := M("ex", EX, "ex-1", EX+"one/")
	for _, n := range c16PrefixLengths {
		pre.Set(c16LongPrefix(n), fmt.Sprintf("%slong%d/", EX, n))
	}
	return EmitYAML(M("profile", "c16", "prefixes", pre, "violation", strs("v"),
		"validations", M("v", M("message", "m", "targetClass", "ex.T", "propertyConstraints", M(path, M("in", strs("__none__")))))))
}

func c16Run(c *Ctx, cs c16Case) {
	for i, s := range cs.Strs {
		ref := ParsePathRef(s)
		c16Hist = append(c16Hist, s)
		one := c16Case{Strs: append([]string{}, c16Hist...), Src: cs.Src, OnlyLast: true}
		judge := !cs.OnlyLast || i == len(cs.Strs)-1
		violate := func(sig, detail string, cse any) {
			if judge {
				c.Violate(sig, detail, cse)
			}
		}
		prof := c16Profile(s)
		q, cr := Compile(prof)
		c.Eval(1)
		accepted := q != nil && cr.Err == nil && cr.Panic == nil
		// classification for coverage
		if ref == nil {
			for cut := len(s) - 1; cut > 0; cut-- {
				if ParsePathRef(s[:cut]) != nil {
					c.Nontrivial(s)
					break
				}
			}
		} else if ref.Render() != s {
			c.Nontrivial(s)
		}
		// the path parser on its own: informational only. The property is stated (and anchored) at CompileProfile; a
		// parser that lets a non-sentence through to a later stage that rejects it does not break it, so this is a note
		// in the evidence, not a violation.
		if dp, derr, dpn := ParsePath(s); dpn == nil && ref == nil && derr == nil && dp != nil && s != "" && !accepted {
			c.Outcome("non-sentence passes the path parser, rejected by a later stage")
			if len(c.notes) < 5 {
				c.Note(fmt.Sprintf("the path parser alone accepts the non-sentence %q (as %s); CompileProfile rejects the profile", s, PathShape(dp)))
			}
		}
		how := "rejected-error"
		if accepted {
			how = "accepted"
		} else if cr.Panic != nil {
			how = "rejected-panic"
		}
		c.Outcome(fmt.Sprintf("sentence=%v %s", ref != nil, how))
		switch {
		case ref == nil && accepted:
			// what did it get truncated to?
			p, _, _ := ParsePath(s)
			shape := "?"
			if p != nil {
				shape = PathShape(p)
			}
			kind := "non-sentence accepted"
			if strings.ContainsAny(s, ",\"") && ParsePathRef(strings.NewReplacer(",", "", "\"", "").Replace(s)) != nil {
				kind = "non-sentence accepted: stray ',' or '\"' taken as a modifier"
			} else if strings.Contains(s, "*") {
				kind = "non-sentence accepted: undocumented '*' modifier"
			}
			violate("C16 "+kind, fmt.Sprintf("string %q is not a sentence of the grammar but compiles; parsed as %s", s, shape), one)
		case ref != nil && !accepted && !declaredPrefixes(ref):
			// a sentence that uses a prefix the profile does not declare is rejected for that reason; no expectation here
			c.Outcome("sentence with undeclared prefix rejected")
		case ref != nil && !accepted:
			sig := "C16 sentence rejected: " + firstLine(cr.ErrString())
			if cr.Panic != nil {
				sig = "C16 sentence rejected by panic at " + cr.Panic.Sig()
			}
			violate(sig, fmt.Sprintf("string %q is a sentence (%s) but CompileProfile fails: %s", s, ref.Shape(), cr.ErrString()), one)
		case ref != nil && accepted:
			p, err, pn := ParsePath(s)
			if err != nil || pn != nil || p == nil {
				violate("C16 accepted but path parser fails when called directly", fmt.Sprintf("%q", s), one)
				break
			}
			if got := PathShape(p); got != ref.Shape() {
				violate("C16 structure differs from the grammar's", fmt.Sprintf("string %q: implementation %s, grammar %s", s, got, ref.Shape()), one)
			}
			// denotation on a collision graph for a subset (every 4th accepted string of the pack)
			if i%4 == 0 && strings.HasPrefix(ref.Render(), "") && onlyKnownPreds(ref) {
				doc := c02Docs("suite")[0]
				res := ValidateCompiled(q, doc.data)
				c.Eval(1)
				if res.Err != nil || res.Panic != nil {
					violate("C16 accepted path fails at evaluation: "+firstLine(res.ErrString()), fmt.Sprintf("%q", s), one)
					break
				}
				rep, err := ParseReport(res.Report)
				if err != nil {
					break
				}
				obs := map[string]map[string]bool{}
				for _, r := range rep.Results {
					if obs[r.Focus] == nil {
						obs[r.Focus] = map[string]bool{}
					}
					for _, a := range traceActuals(r) {
						obs[r.Focus][fmt.Sprint(a)] = true
					}
				}
				for _, n := range doc.g.Nodes {
					exp := map[string]bool{}
					for _, v := range ValueStrings(ref.DenoteFrom(doc.g, n.ID)) {
						exp[v] = true
					}
					got := obs[n.ID]
					if got == nil {
						got = map[string]bool{}
					}
					if !setEq(got, exp) {
						violate("C16 denotation differs from the grammar's structure", fmt.Sprintf("string %q focus %s expected %s got %s", s, n.ID, setStr(exp), setStr(got)), one)
						break
					}
				}
			}
		}
	}
	c.Sample(map[string]any{"src": cs.Src, "strings": cs.Strs[:imin(3, len(cs.Strs))]})
}

func onlyKnownPreds(p *PExpr) bool {
	if p.Kind == "pred" && p.Pred != "ex.p" && p.Pred != "ex.q" {
		return false
	}
	for _, k := range p.Kids {
		if !onlyKnownPreds(k) {
			return false
		}
	}
	return true
}

func declaredPrefixes(p *PExpr) bool {
	if p.Kind == "pred" {
		pre := p.Pred[:strings.Index(p.Pred, ".")]
		if pre != "ex" && pre != "ex-1" {
			long := false
			for _, n := range c16PrefixLengths {
				long = long || pre == c16LongPrefix(n)
			}
			if !long {
				return false
			}
		}
	}
	for _, k := range p.Kids {
		if !declaredPrefixes(k) {
			return false
		}
	}
	return true
}
