//go:build verif

package verifx

// Reference recogniser for the documented property-path grammar
// (third_party/propertyparser.peg) WITH end of input:
//
//	Path       <- Expression EOF
//	Expression <- Term (_ "/" _ Term)*
//	Term       <- Factor (_ "|" _ Factor)*
//	Factor     <- "(" _ Expression _ ")" / Iri / "@type"
//	Iri        <- [a-zA-Z0-9_-]+ "." [.\\/a-zA-Z0-9_-]+ _ "^"?
//	_          <- [ \n\t\r]*
//
// It is a literal PEG interpreter (greedy repetition, ordered choice, no
// backtracking into a repetition), because the lexical facts of the grammar —
// the local name's class contains '/', '.' and '\' — are part of the language:
// "ex.a/ex.b" is ONE predicate, "ex.a /ex.b" a sequence. The transitive
// modifier '*' is not documented and is not part of the reference language.

type pgParser struct {
	s   string
	pos int
}

func isNS(c byte) bool {
	return c >= 'a' && c <= 'z' || c >= 'A' && c <= 'Z' || c >= '0' && c <= '9' || c == '_' || c == '-'
}
func isLocal(c byte) bool { return isNS(c) || c == '.' || c == '\\' || c == '/' }

func (p *pgParser) ws() {
	for p.pos < len(p.s) && (p.s[p.pos] == ' ' || p.s[p.pos] == '\n' || p.s[p.pos] == '\t' || p.s[p.pos] == '\r') {
		p.pos++
	}
}

func (p *pgParser) lit(l string) bool {
	if len(p.s)-p.pos >= len(l) && p.s[p.pos:p.pos+len(l)] == l {
		p.pos += len(l)
		return true
	}
	return false
}

func (p *pgParser) expression() *PExpr {
	head := p.term()
	if head == nil {
		return nil
	}
	kids := []*PExpr{head}
	for {
		save := p.pos
		p.ws()
		if !p.lit("/") {
			p.pos = save
			break
		}
		p.ws()
		t := p.term()
		if t == nil {
			p.pos = save
			break
		}
		kids = append(kids, t)
	}
	if len(kids) == 1 {
		return head
	}
	return PS(kids...)
}

func (p *pgParser) term() *PExpr {
	head := p.factor()
	if head == nil {
		return nil
	}
	kids := []*PExpr{head}
	for {
		save := p.pos
		p.ws()
		if !p.lit("|") {
			p.pos = save
			break
		}
		p.ws()
		f := p.factor()
		if f == nil {
			p.pos = save
			break
		}
		kids = append(kids, f)
	}
	if len(kids) == 1 {
		return head
	}
	return PA(kids...)
}

func (p *pgParser) factor() *PExpr {
	save := p.pos
	if p.lit("(") {
		p.ws()
		e := p.expression()
		if e != nil {
			p.ws()
			if p.lit(")") {
				return e
			}
		}
		p.pos = save
	}
	if e := p.iri(); e != nil {
		return e
	}
	p.pos = save
	if p.lit("@type") {
		return PT()
	}
	p.pos = save
	return nil
}

func (p *pgParser) iri() *PExpr {
	save := p.pos
	i := p.pos
	for i < len(p.s) && isNS(p.s[i]) {
		i++
	}
	if i == p.pos || i >= len(p.s) || p.s[i] != '.' {
		p.pos = save
		return nil
	}
	ns := p.s[p.pos:i]
	i++
	j := i
	for j < len(p.s) && isLocal(p.s[j]) {
		j++
	}
	if j == i {
		p.pos = save
		return nil
	}
	local := p.s[i:j]
	p.pos = j
	p.ws()
	inv := p.lit("^")
	return &PExpr{Kind: "pred", Pred: ns + "." + local, Inv: inv}
}

// ParsePathRef returns the reference AST, or nil when s is not a sentence.
func ParsePathRef(s string) *PExpr {
	p := &pgParser{s: s}
	e := p.expression()
	if e == nil || p.pos != len(s) {
		return nil
	}
	return e
}
