//go:build verif

package verifx

import (
	"fmt"

	"github.com/aml-org/amf-custom-validator/verifrt"
)

// Stateless exploration of choice sequences (thread schedules and/or map
// iteration orders) with iterative deviation bounding.

type Exec struct {
	Choices  []int
	Points   []verifrt.Point
	Results  []CallRes
	Races    map[string]verifrt.Race
	Deadlock bool
	Diverged string
	Accesses int
}

// runExec runs one execution: mk returns fresh thread bodies writing into results.
func runExec(mk func(results []CallRes) []func(), n int, prefix []int, mapChoices bool) Exec {
	return runExecF(mk, n, prefix, mapChoices, nil)
}

func runExecF(mk func(results []CallRes) []func(), n int, prefix []int, mapChoices bool, siteOK func(string, int) bool) Exec {
	results := make([]CallRes, n)
	s := verifrt.NewSched(prefix, mapChoices)
	s.SiteOK = siteOK
	s.Run(mk(results)...)
	ch := make([]int, len(s.Points))
	for i, p := range s.Points {
		ch[i] = p.Choice
	}
	return Exec{Choices: ch, Points: s.Points, Results: results, Races: s.Races, Deadlock: s.Deadlock, Diverged: s.Diverged, Accesses: s.Accesses}
}

type Explorer struct {
	Mk         func(results []CallRes) []func()
	N          int
	MapChoices bool
	SiteOK     func(string, int) bool
	Bound      int
	Part       int
	Parts      int
	Check      func(x Exec)
	Stop       func() bool
	Pre        func() // run before every execution: brings process-wide state to a canonical point
	// NoSched: scheduling points (threads the code under test spawns) always take the default choice; SchedCosts: every
	// non-default scheduling choice costs one deviation, also where the running thread is not enabled (used where the
	// exploration is about orders, not preemptions)
	NoSched    bool
	SchedCosts bool
	Executions int64
	MaxPoints  int
	Capped     bool
	rootChild  int
}

func (e *Explorer) cost(p verifrt.Point) int {
	if p.Choice == 0 {
		return 0
	}
	if p.Kind == "map" {
		return 1
	}
	if p.Preempt || e.SchedCosts {
		return 1
	}
	return 0
}

// Explore runs the DFS. The children of the root execution are partitioned
// round-robin over Parts; every part executes the root itself but only part 0
// counts and checks it.
func (e *Explorer) Explore() {
	e.explore(nil, 0, 0)
}

func (e *Explorer) explore(prefix []int, usedCost int, depth int) {
	if e.Stop != nil && e.Stop() {
		e.Capped = true
		return
	}
	if e.Pre != nil {
		e.Pre()
	}
	x := runExecF(e.Mk, e.N, prefix, e.MapChoices, e.SiteOK)
	if x.Diverged != "" {
		panic("harness: schedule replay diverged: " + x.Diverged)
	}
	if len(x.Points) > e.MaxPoints {
		e.MaxPoints = len(x.Points)
	}
	if depth > 0 || e.Part == 0 {
		e.Executions++
		e.Check(x)
	}
	// cost of the prefix part
	c := 0
	for i := 0; i < len(prefix) && i < len(x.Points); i++ {
		c += e.cost(x.Points[i])
	}
	for i := len(prefix); i < len(x.Points); i++ {
		p := x.Points[i]
		// deviating at point i: alternative choices 1..arity-1
		dev := 1
		if p.Kind == "sched" {
			if e.NoSched {
				continue
			}
			if !p.Preempt && !e.SchedCosts {
				dev = 0 // the running thread is not enabled: switching is free
			}
		}
		if c+dev > e.Bound {
			// default choice costs nothing; continue scanning later points
			continue
		}
		for alt := 1; alt < p.Arity; alt++ {
			if depth == 0 {
				mine := e.rootChild%e.Parts == e.Part
				e.rootChild++
				if !mine {
					continue
				}
			}
			np := append(append([]int{}, x.Choices[:i]...), alt)
			e.explore(np, c+dev, depth+1)
		}
	}
}

func schedString(x Exec) string {
	s := ""
	for i, p := range x.Points {
		if p.Choice != 0 {
			s += fmt.Sprintf("[#%d %s t%d→alt%d %s] ", i, p.Kind, p.Thread, p.Choice, p.Site)
		}
	}
	if s == "" {
		return "(default schedule)"
	}
	return s
}
