//go:build verif

package verifx

// The only file that touches the repository's internal packages by name.

import (
	"github.com/aml-org/amf-custom-validator/internal/parser/path"
	"github.com/aml-org/amf-custom-validator/internal/parser/profile"
	"github.com/aml-org/amf-custom-validator/internal/validator"
)

// GenReset resets the translator's global name counter (what a fresh process has).
func GenReset() { profile.GenReset() }

// GenerateRego returns the generated policy text for a profile.
func GenerateRego(profileText string) (code string, err error, pn *PanicInfo) {
	defer func() {
		if r := recover(); r != nil {
			pn = panicInfo(r)
		}
	}()
	u, e := validator.GenerateRego(profileText, false, nil)
	if e != nil {
		return "", e, nil
	}
	return u.Code, nil, nil
}

// ProcessInput returns the normalised, indexed input handed to the policy.
func ProcessInput(data string) (out any, err error, pn *PanicInfo) {
	defer func() {
		if r := recover(); r != nil {
			pn = panicInfo(r)
		}
	}()
	o, e := validator.ProcessInput(data, false, nil)
	return o, e, nil
}

func Encode(v any) string { return validator.Encode(v) }

// ParsePath exposes the path parser's AST.
func ParsePath(s string) (p path.PropertyPath, err error, pn *PanicInfo) {
	defer func() {
		if r := recover(); r != nil {
			pn = panicInfo(r)
		}
	}()
	pp, e := path.ParsePath(s)
	return pp, e, nil
}

// PathShape renders a parsed path as a canonical s-expression:
// P(iri) / I(iri) / S[...] (sequence) / A[...] (alternative) / N (null path).
func PathShape(p path.PropertyPath) string {
	switch v := p.(type) {
	case path.Property:
		t := ""
		if v.Transitive {
			t = "*"
		}
		if v.Inverse {
			return "I(" + v.Iri + t + ")"
		}
		return "P(" + v.Iri + t + ")"
	case path.AndPath:
		s := "S["
		for i, e := range v.And {
			if i > 0 {
				s += " "
			}
			s += PathShape(e)
		}
		return s + "]"
	case path.OrPath:
		s := "A["
		for i, e := range v.Or {
			if i > 0 {
				s += " "
			}
			s += PathShape(e)
		}
		return s + "]"
	case path.NullPath:
		return "N"
	}
	return "?"
}
