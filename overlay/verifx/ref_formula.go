//go:build verif

package verifx

import (
	"fmt"
	"strings"
)

// F is the reference AST of a validation formula.
//
//	atom:    property ex.p<A> has at least one value (`ex.p<A>: {minCount: 1}`)
//	not/and/or/if/ifelse: classical connectives
//	nested:  every node reached by Path satisfies Kids[0]
//	atLeast: at least N reached nodes satisfy Kids[0];  atMost: at most N
type F struct {
	Op   string `json:"o"`
	A    int    `json:"a,omitempty"`
	Kids []*F   `json:"c,omitempty"`
	Path *PExpr `json:"p,omitempty"`
	N    int    `json:"n,omitempty"`
	Sp   int    `json:"s,omitempty"` // `and` spelling: 0 explicit list, 1 several keys under one propertyConstraints, 2 several constraints under one key
}

func FAtom(i int) *F            { return &F{Op: "atom", A: i} }
func FNot(f *F) *F              { return &F{Op: "not", Kids: []*F{f}} }
func FAnd(k ...*F) *F           { return &F{Op: "and", Kids: k} }
func FOr(k ...*F) *F            { return &F{Op: "or", Kids: k} }
func FIf(a, b *F) *F            { return &F{Op: "if", Kids: []*F{a, b}} }
func FIfElse(a, b, c *F) *F     { return &F{Op: "ifelse", Kids: []*F{a, b, c}} }
func FNested(p *PExpr, f *F) *F { return &F{Op: "nested", Path: p, Kids: []*F{f}} }
func FAtLeast(n int, p *PExpr, f *F) *F {
	return &F{Op: "atLeast", N: n, Path: p, Kids: []*F{f}}
}
func FAtMost(n int, p *PExpr, f *F) *F { return &F{Op: "atMost", N: n, Path: p, Kids: []*F{f}} }

func (f *F) String() string {
	switch f.Op {
	case "atom":
		return fmt.Sprintf("p%d", f.A)
	case "not":
		return "not(" + f.Kids[0].String() + ")"
	case "nested":
		return "nested<" + f.Path.Render() + ">(" + f.Kids[0].String() + ")"
	case "atLeast", "atMost":
		return fmt.Sprintf("%s%d<%s>(%s)", f.Op, f.N, f.Path.Render(), f.Kids[0].String())
	}
	parts := make([]string, len(f.Kids))
	for i, k := range f.Kids {
		parts[i] = k.String()
	}
	sp := ""
	if f.Sp == 1 {
		sp = "~"
	} else if f.Sp == 2 {
		sp = "≈"
	}
	return f.Op + sp + "[" + strings.Join(parts, ",") + "]"
}

// Skeleton abstracts atoms and counts away (used for violation signatures).
func (f *F) Skeleton() string {
	switch f.Op {
	case "atom":
		return "_"
	case "not":
		return "not(" + f.Kids[0].Skeleton() + ")"
	case "nested", "atLeast", "atMost":
		return f.Op + "(" + f.Kids[0].Skeleton() + ")"
	}
	parts := make([]string, len(f.Kids))
	for i, k := range f.Kids {
		parts[i] = k.Skeleton()
	}
	return f.Op + "[" + strings.Join(parts, ",") + "]"
}

func (f *F) isConstraint() bool {
	return f.Op == "atom" || f.Op == "nested" || f.Op == "atLeast" || f.Op == "atMost"
}

func (f *F) pathKey() string {
	if f.Op == "atom" {
		return fmt.Sprintf("ex.p%d", f.A)
	}
	return f.Path.Render()
}

// constraintEntry returns (constraint key, value) for a constraint-like formula.
func (f *F) constraintEntry() (string, any) {
	switch f.Op {
	case "atom":
		return "minCount", 1
	case "nested":
		return "nested", f.Kids[0].Body()
	case "atLeast", "atMost":
		return f.Op, M("count", f.N, "validation", f.Kids[0].Body())
	}
	panic("not a constraint")
}

// ImplicitOK reports whether an `and` can be spelled as several keys of one
// propertyConstraints map (all operands constraints on pairwise distinct paths).
func (f *F) ImplicitOK() bool {
	if f.Op != "and" {
		return false
	}
	seen := map[string]bool{}
	for _, k := range f.Kids {
		if !k.isConstraint() || seen[k.pathKey()] {
			return false
		}
		seen[k.pathKey()] = true
	}
	return true
}

// SameKeyOK: all operands are constraints on the same path with distinct constraint keys.
func (f *F) SameKeyOK() bool {
	if f.Op != "and" || len(f.Kids) < 2 {
		return false
	}
	keys := map[string]bool{}
	for _, k := range f.Kids {
		if !k.isConstraint() || k.pathKey() != f.Kids[0].pathKey() {
			return false
		}
		ck, _ := k.constraintEntry()
		if keys[ck] {
			return false
		}
		keys[ck] = true
	}
	return true
}

// Body renders the formula as the YAML mapping the tutorial documents.
func (f *F) Body() *YMap {
	switch f.Op {
	case "atom", "nested", "atLeast", "atMost":
		ck, cv := f.constraintEntry()
		return M("propertyConstraints", M(f.pathKey(), M(ck, cv)))
	case "not":
		return M("not", f.Kids[0].Body())
	case "and":
		if f.Sp == 1 && f.ImplicitOK() {
			pc := M()
			for _, k := range f.Kids {
				ck, cv := k.constraintEntry()
				pc.Set(k.pathKey(), M(ck, cv))
			}
			return M("propertyConstraints", pc)
		}
		if f.Sp == 2 && f.SameKeyOK() {
			cm := M()
			for _, k := range f.Kids {
				ck, cv := k.constraintEntry()
				cm.Set(ck, cv)
			}
			return M("propertyConstraints", M(f.Kids[0].pathKey(), cm))
		}
		fallthrough
	case "or":
		var l []any
		for _, k := range f.Kids {
			l = append(l, k.Body())
		}
		return M(f.Op, l)
	case "if":
		return M("if", f.Kids[0].Body(), "then", f.Kids[1].Body())
	case "ifelse":
		return M("if", f.Kids[0].Body(), "then", f.Kids[1].Body(), "else", f.Kids[2].Body())
	}
	panic("bad op " + f.Op)
}

// Eval is the reference semantics of f on node id of graph g.
func (f *F) Eval(g *Graph, id string) bool {
	switch f.Op {
	case "atom":
		n := g.Node(id)
		return n != nil && len(n.Get(fmt.Sprintf("%sp%d", EX, f.A))) >= 1
	case "not":
		return !f.Kids[0].Eval(g, id)
	case "and":
		for _, k := range f.Kids {
			if !k.Eval(g, id) {
				return false
			}
		}
		return true
	case "or":
		for _, k := range f.Kids {
			if k.Eval(g, id) {
				return true
			}
		}
		return false
	case "if":
		return !f.Kids[0].Eval(g, id) || f.Kids[1].Eval(g, id)
	case "ifelse":
		if f.Kids[0].Eval(g, id) {
			return f.Kids[1].Eval(g, id)
		}
		return f.Kids[2].Eval(g, id)
	case "nested", "atLeast", "atMost":
		reached := NodeIDs(g, f.Path.DenoteFrom(g, id))
		sat := 0
		for _, r := range reached {
			if f.Kids[0].Eval(g, r) {
				sat++
			}
		}
		switch f.Op {
		case "nested":
			return sat == len(reached)
		case "atLeast":
			return sat >= f.N
		default:
			return sat <= f.N
		}
	}
	panic("bad op " + f.Op)
}

// Clone deep-copies a formula.
func (f *F) Clone() *F {
	c := *f
	c.Kids = make([]*F, len(f.Kids))
	for i, k := range f.Kids {
		c.Kids[i] = k.Clone()
	}
	return &c
}

// SetImplicit returns a copy in which every `and` that can be spelled
// implicitly (sp=1) or under one key (sp=2) is, and whether anything changed.
func (f *F) SetImplicit() (*F, bool) {
	c := f.Clone()
	changed := false
	var walk func(x *F)
	walk = func(x *F) {
		if x.Op == "and" {
			if x.ImplicitOK() {
				x.Sp, changed = 1, true
			} else if x.SameKeyOK() {
				x.Sp, changed = 2, true
			}
		}
		for _, k := range x.Kids {
			walk(k)
		}
	}
	walk(c)
	return c, changed
}

// PropFormulas enumerates every propositional formula with exactly `size`
// connective nodes over the given atoms, with and/or width <= maxW (ordered
// operand tuples, repetition allowed).
func PropFormulas(size int, atoms []int, maxW int) []*F {
	memo := map[int][]*F{}
	var gen func(s int) []*F
	gen = func(s int) []*F {
		if r, ok := memo[s]; ok {
			return r
		}
		var out []*F
		if s == 0 {
			for _, a := range atoms {
				out = append(out, FAtom(a))
			}
			memo[s] = out
			return out
		}
		for _, k := range gen(s - 1) {
			out = append(out, FNot(k))
		}
		// tuples of operand sizes summing to s-1
		var tuples func(n, rem int, cur []int, f func([]int))
		tuples = func(n, rem int, cur []int, f func([]int)) {
			if n == 1 {
				f(append(cur, rem))
				return
			}
			for a := 0; a <= rem; a++ {
				tuples(n-1, rem-a, append(cur, a), f)
			}
		}
		product := func(sizes []int, f func([]*F)) {
			var rec func(i int, cur []*F)
			rec = func(i int, cur []*F) {
				if i == len(sizes) {
					f(append([]*F{}, cur...))
					return
				}
				for _, k := range gen(sizes[i]) {
					rec(i+1, append(cur, k))
				}
			}
			rec(0, nil)
		}
		for w := 2; w <= maxW; w++ {
			tuples(w, s-1, nil, func(sz []int) {
				product(sz, func(ks []*F) {
					out = append(out, FAnd(ks...), FOr(ks...))
					if w == 2 {
						out = append(out, FIf(ks[0], ks[1]))
					}
					if w == 3 {
						out = append(out, FIfElse(ks[0], ks[1], ks[2]))
					}
				})
			})
		}
		if maxW < 3 { // if/else always has three operands
			tuples(3, s-1, nil, func(sz []int) {
				product(sz, func(ks []*F) { out = append(out, FIfElse(ks[0], ks[1], ks[2])) })
			})
		}
		memo[s] = out
		return out
	}
	return gen(size)
}
