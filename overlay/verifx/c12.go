//go:build verif

package verifx

import (
	"fmt"
	"os"
	"path/filepath"
	"strconv"
	"strings"
)

// C12 — reports are well-formed: unique ids, grounded focus nodes, complete results.

type c12Case struct {
	Src     string   `json:"src"`
	Profile string   `json:"profile"`
	Graph   string   `json:"graph"`
	Names   []string `json:"names"`
	Seq     []int    `json:"seq,omitempty"` // src cli: documents written one after the other to the same output file (-1 = junk longer than any report first)
}

// graphFan: four layers for deep sub-result nesting. L3 leaves (class T3) with
// or without p4; L2 (T2) = every subset of <=3 leaves out of a pool of 6; L1 (T1)
// = subsets of <=3 of 6 selected L2 nodes; L0 (T0) = subsets of <=3 of 6 selected L1 nodes.
func graphFan() *Graph {
	g := &Graph{}
	var l3 []string
	for i := 0; i < 6; i++ {
		id := fmt.Sprintf("%sf3_%d", EX, i)
		n := g.Add(id, EX+"T3")
		if i%2 == 0 {
			n.P(EX+"p4", "v")
		}
		if i%3 == 0 {
			n.P(EX+"p5", "v")
		}
		l3 = append(l3, id)
	}
	layer := func(lvl int, below []string) []string {
		var ids []string
		add := func(kids ...int) {
			id := fmt.Sprintf("%sf%d_%d", EX, lvl, len(ids))
			n := g.Add(id, fmt.Sprintf("%sT%d", EX, lvl))
			if len(ids)%2 == 1 {
				n.P(EX+"p1", "v")
			}
			for _, k := range kids {
				n.P(EX+"c", Ref(below[k]))
			}
			ids = append(ids, id)
		}
		add()
		for a := 0; a < 6; a++ {
			add(a)
			for b := a + 1; b < 6; b++ {
				add(a, b)
				for c := b + 1; c < 6; c++ {
					add(a, b, c)
				}
			}
		}
		return ids
	}
	pick := func(ids []string) []string { // 6 spread-out representatives
		var out []string
		for i := 0; i < 6; i++ {
			out = append(out, ids[(i*7+1)%len(ids)])
		}
		return out
	}
	l2 := layer(2, l3)
	l1 := layer(1, pick(l2))
	layer(0, pick(l1))
	return g
}

func namedGraph(name string) (*Graph, string) {
	if g, ok := c01GraphCache[name]; ok {
		return g, c01DataCache[name]
	}
	var g *Graph
	switch {
	case name == "fan":
		g = graphFan()
	case name == "tt4":
		g = TruthTableGraph(4, false)
	case name == "tt7":
		g = TruthTableGraph(7, false)
	case strings.HasPrefix(name, "atoms:"):
		_, g = c01AtomProfile(c01AtomKindByName(name[len("atoms:"):]))
	case strings.HasPrefix(name, "c02suite:"):
		i, _ := strconv.Atoi(name[len("c02suite:"):])
		g = c02Docs("suite")[i].g
	case strings.HasPrefix(name, "lex:"):
		g2, data := c14NamedDoc(name)
		c01GraphCache[name], c01DataCache[name] = g2, data
		return g2, data
	default:
		return c01Graph(name)
	}
	c01GraphCache[name] = g
	c01DataCache[name] = g.FlatJSONLD()
	return g, c01DataCache[name]
}

func init() {
	Register(Meta{
		ID: "C12", Level: "exploration",
		Rule:        "every report produced by: C01 propositional formulas (size<=1) on the truth-table graph, the C01 quantifier and depth families, C02 paths (<=2 leaves) on the collision suite, a level-mix family (multi-branch formulas in all three levels at once on the 16-node truth table, >=11 results per level), nested chains of depth 1..3 with sibling quantifiers on a 4-layer fan graph (several sub-results per trace, several traces per result), the C14 lexical documents, profiles whose `message` is absent / blank / ~ / a number / a boolean, and the command line tool (every sequence of 2 [thorough: 3] long/short/conforming/percent-sign-bearing reports written to one output file, from an absent file and over longer junk, plus what it prints without an output path). Each report is walked completely by an oracle written from the statement (JSON, one instance, one report node, every typed node has an @id, all @ids pairwise distinct, focus nodes grounded in the input, validation names defined, non-empty message/trace, trace entries complete). Non-trivial = report with at least one result; distinct by report text.",
		Assumptions: []string{"node table of the input taken from the abstract graph the document was rendered from"},
	}, c12Gen, c12Run)
}

func c12ProfileFor(class string, forms []*F, levels []string) (string, []string) {
	top := M("profile", "c12", "prefixes", M("ex", EX))
	byLevel := map[string][]any{}
	vals := M()
	var names []string
	for i, f := range forms {
		name := fmt.Sprintf("v%d", i)
		names = append(names, name)
		lv := "violation"
		if len(levels) > 0 {
			lv = levels[i%len(levels)]
		}
		byLevel[lv] = append(byLevel[lv], name)
		v := M("message", "m "+name, "targetClass", class)
		b := f.Body()
		for j, k := range b.Keys {
			v.Set(k, b.Vals[j])
		}
		vals.Set(name, v)
	}
	for _, lv := range []string{"violation", "warning", "info"} {
		if len(byLevel[lv]) > 0 {
			top.Set(lv, byLevel[lv])
		}
	}
	top.Set("validations", vals)
	return EmitYAML(top), names
}

func c12Gen(tier string, emit func(c12Case)) {
	step := 2
	if tier == "thorough" {
		step = 1
	}
	n := 0
	c01Gen(tier, func(cs c01Case) {
		if cs.Fam == "atoms" || cs.Fam == "sibs" || cs.Fam == "twins" {
			return // the atom catalogue builds its own graphs; its reports are single-trace and add nothing here
		}
		n++
		if cs.Fam == "prop" {
			small := true
			for _, f := range cs.Forms {
				if strings.Count(f.String(), "[") > 1 {
					small = false
				}
			}
			if !small && n%(step*8) != 0 {
				return
			}
		} else if n%step != 0 {
			return
		}
		var names []string
		for i := range cs.Forms {
			names = append(names, fmt.Sprintf("v%d", i))
		}
		emit(c12Case{Src: "c01/" + cs.Fam, Profile: c01Profile(cs.Forms), Graph: cs.Graph, Names: names})
	})
	// every atomic constraint kind, plain, under `not` and as the `if` of a conditional (trace entries of every kind)
	for _, k := range c01AtomKinds() {
		prof, _ := c01AtomProfile(k)
		emit(c12Case{Src: "atoms", Profile: prof, Graph: "atoms:" + k.name, Names: []string{"plain", "neg", "asif"}})
	}
	// C02 paths on the suite documents
	var ps []*PExpr
	for l := 1; l <= 2; l++ {
		ps = append(ps, PathASTs(l, c02Leaves)...)
	}
	ndocs := len(c02Docs("suite"))
	for i := 0; i < len(ps); i += c02Pack {
		j := i + c02Pack
		if j > len(ps) {
			j = len(ps)
		}
		var names []string
		for k := range ps[i:j] {
			names = append(names, fmt.Sprintf("a%d", k), fmt.Sprintf("b%d", k))
		}
		for d := 0; d < ndocs; d++ {
			emit(c12Case{Src: "c02", Profile: c02Profile(ps[i:j], false), Graph: fmt.Sprintf("c02suite:%d", d), Names: names})
		}
	}
	// level mix on tt4: multi-branch formulas spread over the three levels
	A, B, C, D := FAtom(1), FAtom(2), FAtom(3), FAtom(4)
	multi := []*F{
		FOr(FAnd(A, B), FAnd(C, D)),
		FOr(FAnd(A, B), FAnd(C, D), FAnd(A, D)),
		FAnd(FOr(A, B), FOr(C, D)),
		FNot(FAnd(A, B, C)),
		FIfElse(A, FOr(B, C), FAnd(C, D)),
		FAnd(A, B, C, D),
		FOr(A, B, C, D),
		FNot(FOr(FAnd(A, B), FAnd(C, D))),
		A,
	}
	lvls := [][]string{{"violation", "warning", "info"}, {"info", "violation", "warning"}, {"warning"}, {"info", "info", "violation"}}
	for i := 0; i+3 <= len(multi); i++ {
		for _, lv := range lvls {
			p, names := c12ProfileFor("ex.T", multi[i:i+3], lv)
			emit(c12Case{Src: "levels", Profile: p, Graph: "tt4", Names: names})
		}
	}
	// size thresholds: 64 results per level on the 128-node truth table
	for _, lv := range lvls {
		p, names := c12ProfileFor("ex.T", []*F{A, FOr(FAnd(A, B), FAnd(C, D)), FNot(FAtom(7))}, lv)
		emit(c12Case{Src: "large", Profile: p, Graph: "tt7", Names: names})
	}
	// fan graph: nested chains and sibling quantifiers at each layer
	path := PP(pc)
	inner := []*F{FAtom(4), FNot(FAtom(4)), FAnd(FAtom(4), FAtom(5)), FOr(FAtom(4), FAtom(5))}
	for _, in := range inner {
		chain1 := FNested(path, in)
		chain2 := FNested(path, FNested(path, in))
		chain3 := FNested(path, FNested(path, FNested(path, in)))
		sib2 := FNested(path, FAnd(FNested(path, in), FAtLeast(2, path, FNot(in)), FAtom(1)))
		sib3 := FNested(path, FOr(FAnd(FAtom(1), FNested(path, FNested(path, in))), FAtMost(0, path, FAtLeast(1, path, in))))
		for _, t := range []struct {
			class string
			fs    []*F
		}{
			{"ex.T2", []*F{chain1, FAtLeast(2, path, in), FAtMost(1, path, in)}},
			{"ex.T1", []*F{chain2, sib2, FOr(chain1, chain2)}},
			{"ex.T0", []*F{chain3, sib3, FAnd(chain1, chain2, chain3)}},
		} {
			for _, lv := range [][]string{{"violation"}, {"violation", "warning", "info"}} {
				p, names := c12ProfileFor(t.class, t.fs, lv)
				emit(c12Case{Src: "fan", Profile: p, Graph: "fan", Names: names})
			}
		}
	}
	// the command line tool: every sequence of one to three reports (long / short / conforming) written to the same
	// output file, from an absent file and over longer junk; what the file holds after each run is a report
	{
		p, names := c12ProfileFor("ex.T", multi[0:3], []string{"violation", "warning", "info"})
		for _, first := range []int{0, -1} {
			for a := 0; a < 4; a++ {
				for b := 0; b < 4; b++ {
					var pre []int
					if first == -1 {
						pre = []int{-1}
					}
					emit(c12Case{Src: "cli", Profile: p, Names: names, Seq: append(append([]int{}, pre...), a, b)})
					if tier == "thorough" {
						for d := 0; d < 3; d++ {
							emit(c12Case{Src: "cli", Profile: p, Names: names, Seq: append(append([]int{}, pre...), a, b, d)})
						}
					}
				}
			}
		}
	}
	// the message key in every form that is not a non-empty string (absent, blank, ~, a number, a boolean): the result
	// still carries a non-empty message (the default one). (`message: ""` is left out: the statement of C13, "the
	// message as written", and this one pull in different directions for it.)
	for _, form := range []string{"", "message:", "message: ~", "message: null", "message: 404", "message: true", "message: 1.5"} {
		for _, body := range []string{"propertyConstraints:\n      ex.p1:\n        minCount: 1", "rego: |\n      $result = false", "not:\n      propertyConstraints:\n        ex.p9:\n          maxCount: 5"} {
			prof := "profile: c12 message forms\nprefixes:\n  ex: http://ex.org/\nviolation:\n  - v0\nvalidations:\n  v0:\n    " + form + "\n    targetClass: ex.T\n    " + body + "\n"
			emit(c12Case{Src: "msgforms", Profile: prof, Graph: "tt4", Names: []string{"v0"}})
		}
		// the {message, code} form of a custom constraint
		if form != "" {
			prof := "profile: c12 message forms\nprefixes:\n  ex: http://ex.org/\nviolation:\n  - v0\nvalidations:\n  v0:\n    message: outer\n    targetClass: ex.T\n    rego:\n      " + form + "\n      code: |\n        $result = false\n"
			emit(c12Case{Src: "msgforms", Profile: prof, Graph: "tt4", Names: []string{"v0"}})
		}
	}
	// lexical documents (locations as typed nodes inside results and traces)
	for _, name := range c14DocNames(tier) {
		emit(c12Case{Src: "lexical", Profile: c14Profile(), Graph: name, Names: c14Names()})
	}
}

var c12Prev, c12PrevClone, c12PrevWhat string

// c12RunCLI: the reports `acv validate P D OUT` leaves in OUT (and prints without OUT) are well-formed too.
func c12RunCLI(c *Ctx, cs c12Case) {
	acv := os.Getenv("VERIF_ACV")
	if acv == "" {
		panic("harness: VERIF_ACV not set (C12 family cli needs the built command line tool)")
	}
	dir, err := os.MkdirTemp(os.Getenv("VERIF_WORK"), "c12cli")
	if err != nil {
		panic("harness: " + err.Error())
	}
	defer os.RemoveAll(dir)
	conf := &Graph{}
	conf.Add(nid(0), EX+"U").P(EX+"p1", "v")
	one := &Graph{}
	one.Add(nid(0), EX+"T").P(EX+"p1", "v").P(EX+"p2", "v").P(EX+"p3", "v").P(EX+"p4", "v")
	one.Add(nid(1), EX+"T")
	// node ids as AMF writes them for URL-encoded paths: "%2F", "%20" and a "%d" / "%s" that a formatting function would eat
	pct := &Graph{}
	pct.Add("amf://id#/web-api/endpoints/%2Fpets/%7Bid%7D", EX+"T").P(EX+"p1", "100%")
	pct.Add("file:///my%20api.raml#/declares/%d/%s", EX+"T")
	graphs := []*Graph{TruthTableGraph(4, false), one, conf, pct}
	gnames := []string{"long", "short", "conforming", "percent signs"}
	os.WriteFile(filepath.Join(dir, "p.yaml"), []byte(cs.Profile), 0o644)
	for i, g := range graphs {
		os.WriteFile(filepath.Join(dir, fmt.Sprintf("d%d.jsonld", i)), []byte(g.FlatJSONLD()), 0o644)
	}
	out := filepath.Join(dir, "out.json")
	names := map[string]bool{}
	for _, n := range cs.Names {
		names[n] = true
	}
	hist := []string{}
	for _, d := range cs.Seq {
		if d < 0 {
			os.WriteFile(out, []byte(strings.Repeat("junk that is not a report\n", 40000)), 0o644)
			hist = append(hist, "junk")
			continue
		}
		hist = append(hist, gnames[d])
		r := c18Exec(dir, "validate", "p.yaml", fmt.Sprintf("d%d.jsonld", d), "out.json")
		c.Eval(1)
		if r.exit != 0 {
			c.Violate("C12 the command line tool fails on a valid profile and document [cli]", fmt.Sprintf("history %v exit=%d\n%s", hist, r.exit, tailStr(r.stdout, 500)), nil)
			return
		}
		b, err := os.ReadFile(out)
		if err != nil {
			c.Violate("C12 the command line tool leaves no output file [cli]", fmt.Sprintf("history %v: %v", hist, err), nil)
			return
		}
		ids := map[string]bool{}
		for _, n := range graphs[d].Nodes {
			ids[n.ID] = true
		}
		seen := map[string]bool{}
		for _, p := range CheckReportWellFormed(string(b), ids, names) {
			cl := probClass(p)
			if !seen[cl] {
				seen[cl] = true
				c.Violate("C12 "+cl+" [cli output file]", fmt.Sprintf("output file after the runs %v\n%s\nfile (%d bytes) starts:\n%s", hist, p, len(b), tailStr(string(b), 1500)), nil)
			}
		}
		// and what it prints without an output path
		r2 := c18Exec(dir, "validate", "p.yaml", fmt.Sprintf("d%d.jsonld", d))
		c.Eval(1)
		for _, p := range CheckReportWellFormed(strings.TrimSuffix(r2.stdout, "\n"), ids, names) {
			cl := probClass(p)
			if !seen[cl] {
				seen[cl] = true
				c.Violate("C12 "+cl+" [cli stdout]", fmt.Sprintf("stdout of validate on the %s document\n%s\n%s", gnames[d], p, tailStr(r2.stdout, 1500)), nil)
			}
		}
		c.Outcome("cli " + gnames[d])
	}
	c.Nontrivial("cli " + strings.Join(hist, ">"))
	c.Sample(map[string]any{"src": "cli", "history": hist})
}

func c12Run(c *Ctx, cs c12Case) {
	if cs.Src == "cli" {
		c12RunCLI(c, cs)
		return
	}
	g, data := namedGraph(cs.Graph)
	res := Validate(cs.Profile, data)
	c.Eval(1)
	if res.Panic != nil || res.Err != nil {
		c.Violate("C12 no report: "+firstLine(res.ErrString()), cs.Profile, nil)
		return
	}
	if c12Prev != c12PrevClone {
		// the report checked in the previous case no longer has the bytes it had when it was returned
		c.Violate("C12 a report changed after it was returned (it is no longer the well-formed document that was checked)", "earlier report ("+c12PrevWhat+") changed when the next validation ran\n"+firstDiff(c12PrevClone, c12Prev), nil)
	}
	c12Prev, c12PrevClone, c12PrevWhat = res.Report, string(append([]byte(nil), res.Report...)), cs.Src+" on "+cs.Graph
	ids := map[string]bool{}
	for _, n := range g.Nodes {
		ids[n.ID] = true
	}
	names := map[string]bool{}
	for _, n := range cs.Names {
		names[n] = true
	}
	probs := CheckReportWellFormed(res.Report, ids, names)
	seen := map[string]bool{}
	for _, p := range probs {
		cl := probClass(p)
		if seen[cl] {
			continue
		}
		seen[cl] = true
		c.Violate("C12 "+cl+" ["+cs.Src+"]", p+"\nprofile:\n"+cs.Profile+"\nreport:\n"+tailStr(res.Report, 3000), nil)
	}
	rep, err := ParseReport(res.Report)
	if err == nil {
		if len(rep.Results) > 0 {
			c.Nontrivial(res.Report)
		}
		depth := strings.Count(res.Report, "subResult")
		c.Outcome(fmt.Sprintf("%s results=%d subResultKeys>0=%v", cs.Src, bucket(len(rep.Results)), depth > 0))
		c.Max("results_in_one_report", int64(len(rep.Results)))
	}
	c.Sample(map[string]any{"src": cs.Src, "graph": cs.Graph, "profile_head": tailStr(cs.Profile, 300)})
}

func bucket(n int) int {
	switch {
	case n == 0:
		return 0
	case n < 11:
		return 1
	default:
		return 11
	}
}

func tailStr(s string, n int) string {
	if len(s) > n {
		return s[:n] + "…"
	}
	return s
}
