//go:build verif

package verifx

import (
	"encoding/json"
	"fmt"
	"strings"
)

// CheckReportWellFormed checks the C12 statement on one report text.
// nodeIDs: @ids of the input graph; validations: names defined in the profile.
// It returns a list of "class: detail" problems (empty = well-formed).
func CheckReportWellFormed(text string, nodeIDs map[string]bool, validations map[string]bool) []string {
	var probs []string
	add := func(class, f string, a ...any) { probs = append(probs, class+": "+fmt.Sprintf(f, a...)) }
	var top any
	dec := json.NewDecoder(strings.NewReader(text))
	dec.UseNumber()
	if err := dec.Decode(&top); err != nil {
		return []string{"not-json: " + err.Error()}
	}
	if rest := strings.TrimSpace(text[dec.InputOffset():]); rest != "" {
		add("not-json", "trailing data after the JSON value (%d bytes)", len(rest))
	}
	arr, ok := top.([]any)
	if !ok || len(arr) != 1 {
		return append(probs, "envelope: top level is not an array holding one dialect instance")
	}
	inst, ok := arr[0].(map[string]any)
	if !ok {
		return append(probs, "envelope: dialect instance is not an object")
	}
	enc, ok := inst["doc:encodes"].([]any)
	if !ok || len(enc) != 1 {
		return append(probs, "envelope: doc:encodes does not hold exactly one node")
	}
	rn, ok := enc[0].(map[string]any)
	if !ok {
		return append(probs, "envelope: report node is not an object")
	}
	hasType := func(m map[string]any, t string) bool {
		switch x := m["@type"].(type) {
		case []any:
			for _, e := range x {
				if e == t {
					return true
				}
			}
		case string:
			return x == t
		}
		return false
	}
	if !hasType(rn, "shacl:ValidationReport") {
		add("envelope", "encoded node is not a shacl:ValidationReport")
	}
	// every typed object has an @id; all @ids pairwise distinct
	ids := map[string]int{}
	var walk func(v any, path string, inContext bool)
	walk = func(v any, path string, inContext bool) {
		switch x := v.(type) {
		case map[string]any:
			if !inContext {
				_, typed := x["@type"]
				id, hasID := x["@id"]
				if typed && !hasID {
					add("missing-id", "typed node without @id at %s", path)
				}
				if hasID {
					s, isStr := id.(string)
					if !isStr || s == "" {
						add("missing-id", "@id is not a non-empty string at %s", path)
					} else {
						ids[s]++
						if ids[s] == 2 {
							add("duplicate-id", "@id %q occurs more than once (second at %s)", s, path)
						}
					}
				}
			}
			for k, e := range x {
				walk(e, path+"/"+k, inContext || k == "@context")
			}
		case []any:
			for i, e := range x {
				walk(e, fmt.Sprintf("%s/%d", path, i), inContext)
			}
		}
	}
	walk(top, "", false)

	var checkResult func(m map[string]any, path string, nested bool)
	checkResult = func(m map[string]any, path string, nested bool) {
		fn, ok := m["focusNode"].(string)
		if !ok {
			add("focus", "result at %s has no single focusNode string (%v)", path, m["focusNode"])
		} else if !nodeIDs[fn] {
			add("focus", "focusNode %q at %s is not a node of the input graph", fn, path)
		}
		name, _ := m["sourceShapeName"].(string)
		if nested {
			if name != "nested" {
				add("shape-name", "sub-result at %s has sourceShapeName %q, want \"nested\"", path, name)
			}
		} else if !validations[name] {
			add("shape-name", "result at %s names validation %q which the profile does not define", path, name)
		}
		if msg, _ := m["resultMessage"].(string); msg == "" {
			add("message", "result at %s has an empty or missing resultMessage", path)
		}
		tr, ok := m["trace"].([]any)
		if !ok || len(tr) == 0 {
			add("trace", "result at %s has an empty or missing trace", path)
			return
		}
		for i, t := range tr {
			tm, ok := t.(map[string]any)
			tp := fmt.Sprintf("%s/trace/%d", path, i)
			if !ok {
				add("trace", "trace entry at %s is not an object", tp)
				continue
			}
			if comp, _ := tm["component"].(string); comp == "" {
				add("trace", "trace entry at %s has no component", tp)
			}
			if _, ok := tm["resultPath"].(string); !ok {
				add("trace", "trace entry at %s has no resultPath", tp)
			}
			if tv, ok := tm["traceValue"].(map[string]any); ok {
				if sub, ok := tv["subResult"].([]any); ok {
					for j, s := range sub {
						if sm, ok := s.(map[string]any); ok {
							checkResult(sm, fmt.Sprintf("%s/traceValue/subResult/%d", tp, j), true)
						} else {
							add("trace", "subResult entry at %s/%d is not an object", tp, j)
						}
					}
				}
			}
		}
	}
	if res, present := rn["result"]; present {
		list, ok := res.([]any)
		if !ok {
			add("envelope", "result is not an array")
		}
		for i, e := range list {
			if m, ok := e.(map[string]any); ok {
				checkResult(m, fmt.Sprintf("/result/%d", i), false)
			} else {
				add("envelope", "result %d is not an object", i)
			}
		}
	}
	return probs
}

func probClass(p string) string {
	if i := strings.Index(p, ":"); i >= 0 {
		return p[:i]
	}
	return p
}
