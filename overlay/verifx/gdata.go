//go:build verif

package verifx

import (
	"crypto/sha1"
	"fmt"
	"os"
	"path/filepath"
	"sort"
	"strconv"
	"strings"
	"sync/atomic"
)

// GNode is one node of an abstract data graph.
type GNode struct {
	ID    string
	Types []string
	Props []GProp // ordered
}

type GProp struct {
	Pred string
	Vals []any // scalars (string, int, float64, bool) or Ref
}

// Ref is a link to another node.
type Ref string

type Graph struct{ Nodes []*GNode }

func (g *Graph) Add(id string, types ...string) *GNode {
	n := &GNode{ID: id, Types: types}
	g.Nodes = append(g.Nodes, n)
	return n
}

func (n *GNode) P(pred string, vals ...any) *GNode {
	for i := range n.Props {
		if n.Props[i].Pred == pred {
			n.Props[i].Vals = append(n.Props[i].Vals, vals...)
			return n
		}
	}
	n.Props = append(n.Props, GProp{Pred: pred, Vals: vals})
	return n
}

func (n *GNode) Get(pred string) []any {
	for _, p := range n.Props {
		if p.Pred == pred {
			return p.Vals
		}
	}
	return nil
}

func (g *Graph) Node(id string) *GNode {
	for _, n := range g.Nodes {
		if n.ID == id {
			return n
		}
	}
	return nil
}

func jsonVal(v any) any {
	switch x := v.(type) {
	case Ref:
		return map[string]any{"@id": string(x)}
	default:
		return x
	}
}

// FlatJSONLD serialises the graph in flattened, fully expanded-IRI form:
// {"@graph":[{"@id":..,"@type":[..],"pred":[values...]}]}. Single values are
// emitted bare, several as an array.
func (g *Graph) FlatJSONLD() string {
	nodes := []any{}
	for _, n := range g.Nodes {
		nodes = append(nodes, nodeObj(n))
	}
	return JSON(map[string]any{"@graph": nodes})
}

func nodeObj(n *GNode) map[string]any {
	m := map[string]any{"@id": n.ID}
	if len(n.Types) > 0 {
		ts := make([]any, len(n.Types))
		for i, t := range n.Types {
			ts[i] = t
		}
		m["@type"] = ts
	}
	for _, p := range n.Props {
		if len(p.Vals) == 1 {
			m[p.Pred] = jsonVal(p.Vals[0])
		} else {
			a := make([]any, len(p.Vals))
			for i, v := range p.Vals {
				a[i] = jsonVal(v)
			}
			m[p.Pred] = a
		}
	}
	return m
}

func (g *Graph) String() string {
	var parts []string
	for _, n := range g.Nodes {
		s := n.ID[strings.LastIndex(n.ID, "/")+1:]
		var ps []string
		for _, p := range n.Props {
			ps = append(ps, fmt.Sprintf("%s=%v", p.Pred[strings.LastIndex(p.Pred, "/")+1:], p.Vals))
		}
		sort.Strings(ps)
		parts = append(parts, s+"{"+strings.Join(ps, " ")+"}")
	}
	return strings.Join(parts, " ")
}

func nid(i int) string { return fmt.Sprintf("%sn%d", EX, i) }

// TruthTableGraph has 2^n nodes of class ex:T; node m has property ex:p<i+1>
// (value "v") exactly when bit i of m is set. When withDecoys is true, each
// assignment also gets a twin of non-target class ex:U (ids u<m>) and a node
// typed [ex:T, ex:U] (ids b<m>).
func TruthTableGraph(n int, withDecoys bool) *Graph {
	g := &Graph{}
	for m := 0; m < 1<<n; m++ {
		kinds := []struct {
			id    string
			types []string
		}{{nid(m), []string{EX + "T"}}}
		if withDecoys {
			kinds = append(kinds,
				struct {
					id    string
					types []string
				}{fmt.Sprintf("%su%d", EX, m), []string{EX + "U"}},
				struct {
					id    string
					types []string
				}{fmt.Sprintf("%sb%d", EX, m), []string{EX + "T", EX + "U"}})
		}
		for _, k := range kinds {
			node := g.Add(k.id, k.types...)
			for i := 0; i < n; i++ {
				if m&(1<<i) != 0 {
					node.P(fmt.Sprintf("%sp%d", EX, i+1), "v")
				}
			}
		}
	}
	return g
}

// ---- documents whose @context is a reference to a file ---------------------------

// RefContextFile writes (once per process) a JSON-LD context document that binds `prefix` to ns and returns its path.
// JSON-LD allows "@context": "<url or path>"; json-gold's default loader reads non-http references from the file system.
var refCtxCounter int64

// RefContextFileFresh is RefContextFile with a new path on every call (a loader that memoises by URL has to load it).
func RefContextFileFresh(prefix, ns string) string {
	n := atomic.AddInt64(&refCtxCounter, 1)
	dir := os.Getenv("VERIF_WORK")
	if dir == "" {
		dir = os.TempDir()
	}
	path := filepath.Join(dir, fmt.Sprintf("ctx-%d-fresh-%d.jsonld", os.Getpid(), n%512))
	if err := os.WriteFile(path, []byte(fmt.Sprintf(`{"@context": {%q: %q}}`, prefix, ns)), 0o644); err != nil {
		panic("harness: " + err.Error())
	}
	return path // the path is what a memoising loader keys on; 512 paths are recycled
}

func RefContextFile(prefix, ns string) string {
	dir := os.Getenv("VERIF_WORK")
	if dir == "" {
		dir = os.TempDir()
	}
	h := sha1.Sum([]byte(prefix + "|" + ns))
	path := filepath.Join(dir, fmt.Sprintf("ctx-%d-%x.jsonld", os.Getpid(), h[:4]))
	if _, err := os.Stat(path); err != nil {
		if err := os.WriteFile(path, []byte(fmt.Sprintf(`{"@context": {%q: %q}}`, prefix, ns)), 0o644); err != nil {
			panic("harness: " + err.Error())
		}
	}
	return path
}

// RefContextJSONLD renders the graph compacted with `prefix` for the namespace EX, the context being a file reference.
func (g *Graph) RefContextJSONLD(prefix string) string { return g.refContextJSONLD(prefix, false) }

// RefContextJSONLDFresh: the same with a context file path that has not been used before in this process.
func (g *Graph) RefContextJSONLDFresh(prefix string) string { return g.refContextJSONLD(prefix, true) }

func (g *Graph) refContextJSONLD(prefix string, fresh bool) string {
	flat := g.FlatJSONLD()
	compact := strings.ReplaceAll(flat, `"`+EX, `"`+prefix+`:`)
	path := RefContextFile(prefix, EX)
	if fresh {
		path = RefContextFileFresh(prefix, EX)
	}
	// the flat rendering is either {"@graph": [...]} or a top-level array
	t := strings.TrimSpace(compact)
	if strings.HasPrefix(t, "{") {
		return `{"@context": ` + strconv.Quote(path) + `,` + t[1:]
	}
	return `{"@context": ` + strconv.Quote(path) + `, "@graph": ` + t + `}`
}

// SplitJSONLD renders the graph flat, but every node with at least two properties is described by TWO entries of
// @graph that share its @id (the first with the types and the first half of the properties, the second, placed after
// all first entries, with the rest). JSON-LD flattening merges such entries; the graph is the same.
func (g *Graph) SplitJSONLD() string {
	var first, second []any
	for _, n := range g.Nodes {
		if len(n.Props) < 2 {
			first = append(first, nodeObj(n))
			continue
		}
		h := len(n.Props) / 2
		a := &GNode{ID: n.ID, Types: n.Types, Props: n.Props[:h]}
		b := &GNode{ID: n.ID, Props: n.Props[h:]}
		first = append(first, nodeObj(a))
		second = append(second, nodeObj(b))
	}
	return JSON(map[string]any{"@graph": append(first, second...)})
}
