//go:build verif

package verifx

import (
	"crypto/sha1"
	"encoding/json"
	"fmt"
	"os"
	"path/filepath"
	"sort"
	"strings"

	"github.com/aml-org/amf-custom-validator/pkg"
	"github.com/open-policy-agent/opa/rego"
	"github.com/piprate/json-gold/ld"
)

// C05 — verdicts are invariant under JSON-LD re-serialisation of the same graph.
// Explicit-state search: state = document text; transitions = surface rewrites.

type c05Case struct {
	Graph string `json:"graph"`
	Depth int    `json:"depth"`
	Part  int    `json:"part"`
	Parts int    `json:"parts"`
	// Replay: a recorded operator sequence (labels) to re-execute instead of searching
	Trace []string `json:"trace,omitempty"`
	CLI   bool     `json:"cli,omitempty"` // whitespace forms of the document read from a file by the command line tool
	Big   int      `json:"big,omitempty"` // n items each with an anonymous (blank) owner node, in five document forms
}

type c05State struct {
	dom    any
	indent string
}

func (s c05State) text() string { return OEmit(s.dom, s.indent) }

type c05Succ struct {
	label string
	st    c05State
}

// ---- helpers over the document shapes --------------------------------------

func c05Nodes(doc any) []any {
	switch d := doc.(type) {
	case []any:
		return d
	case *OMap:
		if g, ok := d.Get("@graph"); ok {
			if a, ok := g.([]any); ok {
				return a
			}
			return []any{g}
		}
		return []any{d}
	}
	return nil
}

func c05SetNodes(doc any, nodes []any) any {
	switch d := doc.(type) {
	case []any:
		return nodes
	case *OMap:
		if _, ok := d.Get("@graph"); ok {
			d.Set("@graph", nodes)
			return d
		}
		// single node document: becomes a graph document keeping the context
		out := &OMap{}
		if ctx, ok := d.Get("@context"); ok {
			out.Set("@context", ctx)
			d.Del("@context")
		}
		out.Set("@graph", nodes)
		return out
	}
	return doc
}

func c05Ctx(doc any) *OMap {
	if d, ok := doc.(*OMap); ok {
		if c, ok := d.Get("@context"); ok {
			if m, ok := c.(*OMap); ok {
				return m
			}
		}
	}
	return nil
}

func isRef(v any) (string, bool) {
	if m, ok := v.(*OMap); ok && len(m.Keys) == 1 && m.Keys[0] == "@id" {
		s, ok := m.Vals[0].(string)
		return s, ok
	}
	return "", false
}

func isNodeObj(v any) (*OMap, bool) {
	if m, ok := v.(*OMap); ok && len(m.Keys) > 1 {
		if _, ok := m.Get("@id"); ok {
			if _, isVal := m.Get("@value"); !isVal {
				return m, true
			}
		}
	}
	return nil, false
}

// walkNodes calls f on every node object at any embedding depth.
func walkNodeObjs(v any, f func(n *OMap)) {
	switch x := v.(type) {
	case []any:
		for _, e := range x {
			walkNodeObjs(e, f)
		}
	case *OMap:
		if _, isVal := x.Get("@value"); isVal {
			return
		}
		_, hasID := x.Get("@id")
		if hasID && len(x.Keys) > 1 || !hasID {
			if _, isG := x.Get("@graph"); !isG {
				f(x)
			}
		}
		for i, k := range x.Keys {
			if k == "@context" || k == "@id" || k == "@type" {
				continue
			}
			walkNodeObjs(x.Vals[i], f)
		}
	}
}

// mapIRIs rewrites keys, @type values and @id values of all node objects.
func c05MapIRIs(doc any, key func(string) string, typ func(string) string, id func(string) string) {
	var rec func(v any)
	rec = func(v any) {
		switch x := v.(type) {
		case []any:
			for _, e := range x {
				rec(e)
			}
		case *OMap:
			if _, isVal := x.Get("@value"); isVal {
				return
			}
			for i, k := range x.Keys {
				switch k {
				case "@context":
				case "@id":
					if s, ok := x.Vals[i].(string); ok {
						x.Vals[i] = id(s)
					}
				case "@type":
					switch t := x.Vals[i].(type) {
					case string:
						x.Vals[i] = typ(t)
					case []any:
						for j, e := range t {
							if s, ok := e.(string); ok {
								t[j] = typ(s)
							}
						}
					}
				case "@graph":
					rec(x.Vals[i])
				default:
					x.Keys[i] = key(k)
					rec(x.Vals[i])
				}
			}
		}
	}
	rec(doc)
}

func withCtx(doc any, k string, v any) any {
	var d *OMap
	switch x := doc.(type) {
	case *OMap:
		d = x
	case []any:
		d = OM("@graph", x)
	}
	ctx := c05Ctx(d)
	if ctx == nil {
		ctx = &OMap{}
		nd := &OMap{Keys: []string{"@context"}, Vals: []any{ctx}}
		nd.Keys = append(nd.Keys, d.Keys...)
		nd.Vals = append(nd.Vals, d.Vals...)
		d = nd
	}
	ctx.Set(k, v)
	return d
}

// ---- the rewrite operators --------------------------------------------------

func c05Successors(s c05State) []c05Succ {
	var out []c05Succ
	add := func(label string, dom any) { out = append(out, c05Succ{label, c05State{dom, s.indent}}) }
	ctx := c05Ctx(s.dom)
	extCtx := false // the context is a reference to a file: no further context rewrites (they would replace it)
	if d, ok := s.dom.(*OMap); ok {
		if cv, ok := d.Get("@context"); ok {
			_, extCtx = cv.(string)
		}
	}
	has := func(k string) bool {
		if extCtx {
			return true
		}
		if ctx == nil {
			return false
		}
		_, ok := ctx.Get(k)
		return ok
	}
	// 0 the inline context moved to a file and referenced by its path (JSON-LD ignores @base in such a context)
	if d, ok := s.dom.(*OMap); ok && ctx != nil && len(ctx.Keys) > 0 {
		if _, hasBase := ctx.Get("@base"); !hasBase {
			text := OEmit(OM("@context", OClone(ctx)), "")
			h := sha1.Sum([]byte(text))
			dir := os.Getenv("VERIF_WORK")
			if dir == "" {
				dir = os.TempDir()
			}
			path := filepath.Join(dir, fmt.Sprintf("c05ctx-%x.jsonld", h[:6]))
			if _, err := os.Stat(path); err != nil {
				tmp := fmt.Sprintf("%s.%d", path, os.Getpid())
				os.WriteFile(tmp, []byte(text), 0o644)
				os.Rename(tmp, path)
			}
			dd := OClone(d).(*OMap)
			dd.Set("@context", path)
			add("context moved to a file and referenced", dd)
		}
	}
	// 1 prefix compaction
	if !has("ex") && !has("@vocab") {
		d := OClone(s.dom)
		pre := func(x string) string {
			if strings.HasPrefix(x, EX) && len(x) > len(EX) && !strings.ContainsAny(x[len(EX):], ":") {
				return "ex:" + x[len(EX):]
			}
			return x
		}
		idf := pre
		if has("@base") {
			idf = func(x string) string { return x }
		}
		c05MapIRIs(d, pre, pre, idf)
		add("prefix-context", withCtx(d, "ex", EX))
	}
	// 2 @vocab
	if !has("@vocab") && !has("ex") {
		d := OClone(s.dom)
		voc := func(x string) string {
			if strings.HasPrefix(x, EX) && len(x) > len(EX) && !strings.ContainsAny(x[len(EX):], ":/") {
				return x[len(EX):]
			}
			return x
		}
		c05MapIRIs(d, voc, voc, func(x string) string { return x })
		add("vocab-context", withCtx(d, "@vocab", EX))
	}
	// 3 @base-relative ids
	if !has("@base") {
		d := OClone(s.dom)
		rel := func(x string) string {
			if strings.HasPrefix(x, EX) && len(x) > len(EX) && !strings.Contains(x[len(EX):], ":") {
				return x[len(EX):]
			}
			return x
		}
		c05MapIRIs(d, func(x string) string { return x }, func(x string) string { return x }, rel)
		add("base-relative-ids", withCtx(d, "@base", EX))
	}
	nodes := c05Nodes(s.dom)
	topID := map[string]int{}
	for i, n := range nodes {
		if m, ok := n.(*OMap); ok {
			if id, ok := m.Get("@id"); ok {
				if sid, ok := id.(string); ok {
					topID[sid] = i
				}
			}
		}
	}
	// 4 embed a referenced top-level node at one reference position
	for ni, n := range nodes {
		m, ok := n.(*OMap)
		if !ok {
			continue
		}
		for ki, k := range m.Keys {
			if strings.HasPrefix(k, "@") {
				continue
			}
			vals, isArr := m.Vals[ki].([]any)
			if !isArr {
				vals = []any{m.Vals[ki]}
			}
			for vi, v := range vals {
				ref, ok := isRef(v)
				if !ok {
					continue
				}
				ti, isTop := topID[ref]
				if !isTop || ti == ni {
					continue
				}
				d := OClone(s.dom)
				dn := c05Nodes(d)
				target := dn[ti]
				host := dn[ni].(*OMap)
				if isArr {
					host.Vals[ki].([]any)[vi] = target
				} else {
					host.Vals[ki] = target
				}
				rest := append(append([]any{}, dn[:ti]...), dn[ti+1:]...)
				add(fmt.Sprintf("embed %s into node %d key %d", shortIRI(ref), ni, ki), c05SetNodes(d, rest))
			}
		}
	}
	// 5 hoist an embedded node to the top level
	{
		cnt := 0
		for ni, n := range nodes {
			m, ok := n.(*OMap)
			if !ok {
				continue
			}
			for ki, k := range m.Keys {
				if strings.HasPrefix(k, "@") {
					continue
				}
				vals, isArr := m.Vals[ki].([]any)
				if !isArr {
					vals = []any{m.Vals[ki]}
				}
				for vi, v := range vals {
					if emb, ok := isNodeObj(v); ok {
						cnt++
						d := OClone(s.dom)
						dn := c05Nodes(d)
						host := dn[ni].(*OMap)
						id, _ := emb.Get("@id")
						var moved any
						if isArr {
							moved = host.Vals[ki].([]any)[vi]
							host.Vals[ki].([]any)[vi] = OM("@id", id)
						} else {
							moved = host.Vals[ki]
							host.Vals[ki] = OM("@id", id)
						}
						add(fmt.Sprintf("hoist embedded node %d/%d/%d", ni, ki, vi), c05SetNodes(d, append(dn, moved)))
					}
				}
			}
		}
	}
	// 6 graph wrapper forms
	switch d := s.dom.(type) {
	case *OMap:
		if g, ok := d.Get("@graph"); ok {
			if ctx == nil && !extCtx {
				add("unwrap @graph to a top-level array", OClone(g))
			}
			if a, ok := g.([]any); ok && len(a) == 1 {
				// "@graph": [node] and "@graph": node denote the same graph
				dd := OClone(d).(*OMap)
				dd.Set("@graph", OClone(a[0]))
				add("@graph value: one-element array -> the node object itself", dd)
			} else if one, ok := g.(*OMap); ok {
				dd := OClone(d).(*OMap)
				dd.Set("@graph", []any{OClone(one)})
				add("@graph value: node object -> one-element array", dd)
			}
			if a, ok := g.([]any); ok && len(a) == 1 {
				if one, ok := a[0].(*OMap); ok {
					c := OClone(one).(*OMap)
					if cv, hasCtx := d.Get("@context"); hasCtx {
						nc := &OMap{Keys: []string{"@context"}, Vals: []any{OClone(cv)}}
						nc.Keys = append(nc.Keys, c.Keys...)
						nc.Vals = append(nc.Vals, c.Vals...)
						c = nc
					}
					add("single node without @graph", c)
				}
			}
		}
	case []any:
		add("wrap in @graph", OM("@graph", OClone(d)))
	}
	// 7 rotate node order
	if len(nodes) > 1 {
		d := OClone(s.dom)
		dn := c05Nodes(d)
		add("rotate node order", c05SetNodes(d, append(append([]any{}, dn[1:]...), dn[0])))
		add("reverse node order", c05SetNodes(d, reverseAny(dn)))
	}
	// 8 reverse key order everywhere
	{
		d := OClone(s.dom)
		var rec func(v any)
		rec = func(v any) {
			switch x := v.(type) {
			case []any:
				for _, e := range x {
					rec(e)
				}
			case *OMap:
				for i, j := 0, len(x.Keys)-1; i < j; i, j = i+1, j-1 {
					x.Keys[i], x.Keys[j] = x.Keys[j], x.Keys[i]
					x.Vals[i], x.Vals[j] = x.Vals[j], x.Vals[i]
				}
				for _, e := range x.Vals {
					rec(e)
				}
			}
		}
		rec(d)
		add("reverse key order", d)
	}
	// 9-11 per (node, key): value <-> one-element array, @type string <-> array, duplicate a value
	for ni, n := range nodes {
		m, ok := n.(*OMap)
		if !ok {
			continue
		}
		for ki, k := range m.Keys {
			if k == "@id" || k == "@context" || k == "@graph" {
				continue
			}
			mod := func(label string, f func(v any) any) {
				d := OClone(s.dom)
				dm := c05Nodes(d)[ni].(*OMap)
				dm.Vals[ki] = f(dm.Vals[ki])
				// a single-node document is edited in place; others through the node list
				add(fmt.Sprintf("%s node %d key %s", label, ni, shortIRI(k)), d)
			}
			if a, isArr := m.Vals[ki].([]any); isArr {
				if len(a) == 1 {
					mod("unwrap one-element array", func(v any) any { return v.([]any)[0] })
				}
				if len(a) >= 1 {
					mod("duplicate a value", func(v any) any { x := v.([]any); return append(append([]any{}, x...), OClone(x[0])) })
				}
			} else {
				mod("wrap value in array", func(v any) any { return []any{v} })
				mod("duplicate a value", func(v any) any { return []any{v, OClone(v)} })
			}
		}
	}
	// 12 duplicate / split a whole node object
	for ni, n := range nodes {
		m, ok := n.(*OMap)
		if !ok || len(m.Keys) < 2 {
			continue
		}
		d := OClone(s.dom)
		dn := c05Nodes(d)
		add(fmt.Sprintf("duplicate node object %d", ni), c05SetNodes(d, append(append([]any{}, dn...), OClone(dn[ni]))))
		if len(m.Keys) >= 3 {
			d2 := OClone(s.dom)
			dn2 := c05Nodes(d2)
			orig := dn2[ni].(*OMap)
			id, _ := orig.Get("@id")
			a, b := OM("@id", id), OM("@id", id)
			half := 0
			for i, k := range orig.Keys {
				if k == "@id" {
					continue
				}
				if half%2 == 0 {
					a.Set(k, orig.Vals[i])
				} else {
					b.Set(k, orig.Vals[i])
				}
				half++
			}
			dn2[ni] = a
			add(fmt.Sprintf("split node object %d in two", ni), c05SetNodes(d2, append(append([]any{}, dn2...), b)))
		}
	}
	// 13 fully expanded form (only without a context)
	if ctx == nil && !extCtx {
		d := OClone(s.dom)
		var expandNode func(m *OMap)
		expandVal := func(v any) any { return v }
		expandVal = func(v any) any {
			switch x := v.(type) {
			case *OMap:
				if _, isVal := x.Get("@value"); isVal {
					return x
				}
				if _, ok := isRef(x); ok {
					return x
				}
				expandNode(x)
				return x
			default:
				return OM("@value", v)
			}
		}
		expandNode = func(m *OMap) {
			for i, k := range m.Keys {
				switch k {
				case "@id":
				case "@type":
					if sv, ok := m.Vals[i].(string); ok {
						m.Vals[i] = []any{sv}
					}
				default:
					a, isArr := m.Vals[i].([]any)
					if !isArr {
						a = []any{m.Vals[i]}
					}
					na := make([]any, len(a))
					for j, e := range a {
						na[j] = expandVal(e)
					}
					m.Vals[i] = na
				}
			}
		}
		dn := c05Nodes(d)
		changed := false
		for _, n := range dn {
			if m, ok := n.(*OMap); ok {
				before := OEmit(m, "")
				expandNode(m)
				if OEmit(m, "") != before {
					changed = true
				}
			}
		}
		if changed {
			add("fully expanded form", append([]any{}, dn...))
		}
	}
	// 14 whitespace / indentation
	for _, ind := range []string{"", "  ", "\t"} {
		if ind != s.indent {
			out = append(out, c05Succ{fmt.Sprintf("indent %q", ind), c05State{s.dom, ind}})
		}
	}
	return out
}

func reverseAny(a []any) []any {
	out := make([]any, len(a))
	for i, v := range a {
		out[len(a)-1-i] = v
	}
	return out
}

func shortIRI(s string) string {
	if i := strings.LastIndexAny(s, "/#"); i >= 0 && i+1 < len(s) {
		return s[i+1:]
	}
	return s
}

// ---- base graphs and observer profile ----------------------------------------

func c05BaseGraph(name string) *Graph {
	switch name {
	case "mixed":
		g := &Graph{}
		// local names that equal well-known AMF prefix names (security, data, doc, core): no prefix table may capture them
		g.Add(nid(0), EX+"T").P(EX+"p1", "v").P(EX+"p2", "a").P(EX+"name", "zero").P(EX+"security", "s").P(EX+"data", "d").P(EX+"doc", Ref(EX+"c0"))
		g.Add(nid(1), EX+"T").P(EX+"p2", "a", "z").P(EX+"name", "one").P(EX+"core", "k").P(EX+"shapes", "x", "y")
		g.Add(nid(2), EX+"T", EX+"U").P(EX+"p1", "v", "w").P(EX+"c", Ref(EX+"c0"), Ref(EX+"c1"))
		g.Add(nid(3), EX+"T").P(EX+"c", Ref(EX+"c0")).P(EX+"p2", 3, true)
		g.Add(EX+"c0", EX+"C").P(EX+"p4", "x")
		g.Add(EX+"c1", EX+"C")
		return g
	case "paths":
		g := &Graph{}
		id := func(i int) string { return fmt.Sprintf("%sm%d", EX, i) }
		g.Add(id(0), EX+"T").P(EX+"p", Ref(id(0)), "l0", Ref(id(1))).P(EX+"q", "l0", Ref(id(1)))
		g.Add(id(1), EX+"T").P(EX+"p", "l1", "l0").P(EX+"q", Ref(id(2)), Ref(id(0))).P(EX+"c", Ref(id(2)))
		g.Add(id(2), EX+"C", EX+"U").P(EX+"q", Ref(id(2))).P(EX+"p4", "x")
		return g
	case "lexical":
		g, _, _ := c14Build(c14Case{Mode: "full", Ranges: c14DefaultRanges(c14M5), Files: c14DefaultFiles, NodeMask: 47, PropMask: 4})
		return g
	case "tree":
		// a root with everything else reachable from it: after embedding, the document has ONE top-level node, the shape
		// in which "@graph" may hold a bare object and the document may be that node itself
		g := &Graph{}
		g.Add(nid(0), EX+"T").P(EX+"p2", "z").P(EX+"name", "root").P(EX+"c", Ref(EX+"c0"))
		g.Add(EX+"c0", EX+"C", EX+"T").P(EX+"p1", "v").P(EX+"p2", "a").P(EX+"name", "kid")
		return g
	case "tt2":
		return TruthTableGraph(2, true)
	}
	panic("unknown base graph " + name)
}

func c05Profile() string {
	con := func(path string, c *YMap) *YMap { return M("propertyConstraints", M(path, c)) }
	v := func(msg any, class string, body *YMap) *YMap {
		m := M("message", msg, "targetClass", class)
		for i, k := range body.Keys {
			m.Set(k, body.Vals[i])
		}
		return m
	}
	return EmitYAML(M("profile", "c05", "prefixes", M("ex", EX),
		"violation", strs("count", "set", "nested", "path", "type", "reserved"),
		"warning", strs("inverse", "msg"),
		"validations", M(
			"count", v("count", "ex.T", M("propertyConstraints", M("ex.p1", M("minCount", 1, "maxCount", 1)))),
			"set", v("set", "ex.T", con("ex.p2", M("in", []any{"a", "b", 3}))),
			"nested", v("nested", "ex.T", con("ex.c", M("nested", con("ex.p4", M("minCount", 1))))),
			"inverse", v("inverse", "ex.C", con("ex.c^", M("minCount", 2))),
			"msg", v(YQ("name={{ex.name}} p1={{ex.p1}}"), "ex.T", con("ex.name", M("minLength", 4))),
			"path", v("path", "ex.T", con("ex.p / ex.q^ | ex.q", M("in", strs("__none__")))),
			"type", v("type", "ex.T", con("@type", M("in", strs(EX+"T")))),
			"reserved", v("reserved", "ex.T", M("propertyConstraints", M("ex.security", M("minCount", 1), "ex.data", M("in", strs("d")), "ex.core", M("maxCount", 0), "ex.shapes", M("maxCount", 1), "ex.doc / ex.p4", M("minCount", 1)))),
		)))
}

var c05Query *rego.PreparedEvalQuery

func c05NQuads(text string) (string, error) {
	var doc any
	dec := json.NewDecoder(strings.NewReader(text))
	if err := dec.Decode(&doc); err != nil {
		return "", err
	}
	proc := ld.NewJsonLdProcessor()
	opts := ld.NewJsonLdOptions("")
	opts.Format = "application/n-quads"
	out, err := proc.ToRDF(doc, opts)
	if err != nil {
		return "", err
	}
	lines := strings.Split(strings.TrimSpace(out.(string)), "\n")
	set := map[string]bool{}
	for _, l := range lines {
		set[l] = true
	}
	uniq := sortedKeys(set)
	sort.Strings(uniq)
	return strings.Join(uniq, "\n"), nil
}

func init() {
	Register(Meta{
		ID: "C05", Level: "model_checking", LongCases: true,
		Rule:        "state = JSON-LD document text; initial states = canonical flattened serialisation of base graphs (mixed scalars/links/types, path collision graph, lexical document with source maps, truth table with decoys, a two-node tree that embeds into a single top-level node); transitions = 16 surface rewrites, every applicable (operator, position): prefix context, the context moved to a file and referenced by path, @vocab context, @base-relative ids, embed a referenced node at one reference, hoist an embedded node, @graph wrapper/top-level array/single node forms, \"@graph\": [node] <-> \"@graph\": node, rotate/reverse node order, reverse key order, value<->one-element array per property, @type string<->array, duplicate a value, duplicate/split a node object, fully expanded form, indentation. Whitespace forms that only matter where the text is first read (one line of 70 000 bytes / 1.1 MiB, CRLF, tabs, leading/trailing blank runs) go through the built command line tool for 3 graphs. Documents of 3/257/600/1025 (4097) items, each with an anonymous owner node, in six forms (array, @graph wrapper, with context, reversed, owners hoisted to labelled blank nodes after/before the items). Depth-bounded search deduplicated on the document text; every transition is first validated to preserve the RDF dataset (sorted N-Quads by json-gold); every state is evaluated with a 7-validation observer profile (count, set, nested, inverse path, message placeholders, path expression, @type) and its (conforms, {(severity, validation, focus node, message)}) must equal the initial state's.",
		Assumptions: []string{"typed/language-tagged literals and contexts fetched over the network are outside the rewrite alphabet (a context referenced as a local file is in it)", "blank nodes do not occur in the base graphs of the rewrite search (they occur in the large-document forms)"},
	}, c05Gen, c05Run)
}

func c05Gen(tier string, emit func(c05Case)) {
	type gd struct {
		g string
		d int
	}
	plan := []gd{{"mixed", 2}, {"paths", 2}, {"lexical", 2}, {"tt2", 2}, {"tree", 3}}
	if tier == "thorough" {
		plan = []gd{{"mixed", 3}, {"paths", 3}, {"lexical", 2}, {"tt2", 2}, {"tree", 4}}
	}
	for _, g := range []string{"mixed", "lexical", "tree"} {
		emit(c05Case{Graph: g, CLI: true})
	}
	for _, n := range []int{3, 257, 600, 1025} {
		emit(c05Case{Graph: "big", Big: n})
	}
	if tier == "thorough" {
		emit(c05Case{Graph: "big", Big: 4097})
	}
	for _, p := range plan {
		parts := 16
		if p.d == 1 {
			parts = 2
		}
		for k := 0; k < parts; k++ {
			emit(c05Case{Graph: p.g, Depth: p.d, Part: k, Parts: parts})
		}
	}
}

var c05WithDebug = true

func c05Verdict(c *Ctx, text string) (string, CallRes) {
	r := ValidateCompiled(c05Query, text)
	c.Eval(1)
	if !c05WithDebug {
		if r.Err != nil || r.Panic != nil {
			return "", r
		}
		rep, err := ParseReport(r.Report)
		if err != nil {
			return "", CallRes{Err: err}
		}
		return rep.Verdict(), r
	}
	// the debug flag of the entry point must not change anything
	rd := protect(func() (string, error) {
		return pkg.ValidateCompiledWithConfiguration(c05Query, text, true, nil, Epoch2000, DefaultReportConf())
	})
	c.Eval(1)
	if rd.Report != r.Report || (rd.Err == nil) != (r.Err == nil) || (rd.Panic == nil) != (r.Panic == nil) {
		if rd.Panic != nil {
			return "", rd
		}
		if rd.Err != nil {
			return "", rd
		}
		if rep, err := ParseReport(rd.Report); err == nil {
			return "debug=true: " + rep.Verdict(), rd
		}
	}
	if r.Err != nil || r.Panic != nil {
		return "", r
	}
	rep, err := ParseReport(r.Report)
	if err != nil {
		return "", CallRes{Err: err}
	}
	return rep.Verdict(), r
}

// c05RunCLI: whitespace is a surface form too, and the command line tool is where a document is first read as text:
// the same graph indented, on one line, on one line of more than 64 KiB / 1 MiB (blanks after the first bracket), with
// CRLF line ends, with tabs, with and without a final newline must give the verdict the library gives.
func c05RunCLI(c *Ctx, cs c05Case, init c05State) {
	if os.Getenv("VERIF_ACV") == "" {
		panic("harness: VERIF_ACV not set (C05 cli forms need the built command line tool)")
	}
	dir, err := os.MkdirTemp(os.Getenv("VERIF_WORK"), "c05cli")
	if err != nil {
		panic("harness: " + err.Error())
	}
	defer os.RemoveAll(dir)
	compact := init.text()
	want, r0 := c05Verdict(c, compact)
	if r0.Err != nil || r0.Panic != nil {
		c.Violate("C05 base document rejected: "+firstLine(r0.ErrString()), compact, nil)
		return
	}
	pad := func(n int) string { return compact[:1] + strings.Repeat(" ", n) + compact[1:] }
	indented := c05State{dom: init.dom, indent: "  "}.text()
	forms := []struct{ name, text string }{
		{"one line", compact}, {"one line + newline", compact + "\n"}, {"indented", indented}, {"indented, tabs", c05State{dom: init.dom, indent: "\t"}.text()},
		{"indented, CRLF", strings.ReplaceAll(indented, "\n", "\r\n")}, {"one line of 70 000 bytes", pad(70000)}, {"one line of 1.1 MiB", pad(1100000)},
		{"4097 leading newlines", strings.Repeat("\n", 4097) + compact}, {"trailing blanks and newlines", compact + strings.Repeat(" \n", 3000)},
	}
	os.WriteFile(filepath.Join(dir, "p.yaml"), []byte(c05Profile()), 0o644)
	for i, f := range forms {
		name := fmt.Sprintf("d%d.jsonld", i)
		os.WriteFile(filepath.Join(dir, name), []byte(f.text), 0o644)
		r := c18Exec(dir, "validate", "p.yaml", name)
		c.Eval(1)
		got := ""
		if rep, err := ParseReport(strings.TrimSpace(r.stdout)); err == nil {
			got = rep.Verdict()
		}
		if r.exit != 0 || got != want {
			c.Violate("C05 the command line tool gives another verdict for a whitespace form of the document", fmt.Sprintf("graph %s, form %q (%d bytes): exit=%d\nlibrary: %s\ncli:     %s\nstdout starts: %s", cs.Graph, f.name, len(f.text), r.exit, tailStr(want, 600), tailStr(got, 600), tailStr(r.stdout, 300)), nil)
		}
		c.Outcome("cli form " + f.name)
	}
	c.Count("states", int64(len(forms)))
	c.Count("transitions", int64(len(forms)))
	c.Count("traces_validated_against_impl", int64(len(forms)))
	c.Nontrivial("cli/" + cs.Graph)
}

// c05RunBig: n items, each linked to an ANONYMOUS owner node (a blank node: its identity exists only inside the
// document); item n/2's owner lacks the name. Five forms of the same graph: top-level array, @graph wrapper, wrapper
// with a prefix context, reversed node order, owners hoisted to labelled blank nodes listed after (and before) the
// items. The verdict (about the items, which have IRIs) must be the same for all.
func c05RunBig(c *Ctx, cs c05Case) {
	n := cs.Big
	prof := EmitYAML(M("profile", "c05 big", "prefixes", M("ex", EX), "violation", strs("owner", "count"),
		"validations", M(
			"owner", M("message", "owner needs a name", "targetClass", "ex.T", "propertyConstraints", M("ex.c", M("nested", M("propertyConstraints", M("ex.p4", M("minCount", 1)))))),
			"count", M("message", "exactly one owner", "targetClass", "ex.T", "propertyConstraints", M("ex.c", M("minCount", 1, "maxCount", 1))))))
	q, cr := Compile(prof)
	if q == nil {
		panic("harness: C05 big profile does not compile: " + cr.ErrString())
	}
	owner := func(k int, ns string) string {
		if k == n/2 {
			return `{"@type":["` + ns + `C"]}`
		}
		return fmt.Sprintf(`{"@type":["%sC"],"%sp4":"owner %d"}`, ns, ns, k)
	}
	item := func(k int, ns string) string {
		return fmt.Sprintf(`{"@id":"%si%d","@type":["%sT"],"%sp2":"a","%sc":%s}`, ns, k, ns, ns, ns, owner(k, ns))
	}
	var items, compact, hoistedItems, hoistedOwners []string
	for k := 0; k < n; k++ {
		items = append(items, item(k, EX))
		compact = append(compact, item(k, "ex:"))
		hoistedItems = append(hoistedItems, fmt.Sprintf(`{"@id":"%si%d","@type":["%sT"],"%sp2":"a","%sc":{"@id":"_:owner%d"}}`, EX, k, EX, EX, EX, k))
		o := owner(k, EX)
		hoistedOwners = append(hoistedOwners, fmt.Sprintf(`{"@id":"_:owner%d",%s`, k, o[1:]))
	}
	rev := func(l []string) []string {
		out := make([]string, len(l))
		for i, x := range l {
			out[len(l)-1-i] = x
		}
		return out
	}
	join := func(l []string) string { return strings.Join(l, ",\n") }
	forms := []struct{ name, text string }{
		{"top-level array", "[" + join(items) + "]"},
		{"@graph wrapper", `{"@graph":[` + join(items) + "]}"},
		{"@graph wrapper with a prefix context", `{"@context":{"ex":"` + EX + `"},"@graph":[` + join(compact) + "]}"},
		{"@graph wrapper, reversed order", `{"@graph":[` + join(rev(items)) + "]}"},
		{"labelled blank owners after the items", `{"@graph":[` + join(append(append([]string{}, hoistedItems...), hoistedOwners...)) + "]}"},
		{"labelled blank owners before the items", `{"@graph":[` + join(append(append([]string{}, hoistedOwners...), hoistedItems...)) + "]}"},
	}
	want := ""
	for i, f := range forms {
		r := ValidateCompiled(q, f.text)
		c.Eval(1)
		if r.Err != nil || r.Panic != nil {
			c.Violate("C05 equivalent serialisation rejected: "+firstLine(r.ErrString()), fmt.Sprintf("%d items with anonymous owners, form %q", n, f.name), nil)
			continue
		}
		rep, err := ParseReport(r.Report)
		if err != nil {
			c.Violate("C05 report malformed", err.Error(), nil)
			continue
		}
		v := rep.Verdict()
		if i == 0 {
			want = v
			if !strings.Contains(v, fmt.Sprintf("|owner|%si%d|", EX, n/2)) {
				c.Violate("C05 verdict on a document with anonymous nodes is not the expected one", fmt.Sprintf("%d items, form %q: item %d (whose owner has no name) is not reported\n%s", n, f.name, n/2, tailStr(v, 600)), nil)
			}
			continue
		}
		if v != want {
			c.Violate("C05 verdict changes under re-serialisation (document with anonymous nodes, form: "+f.name+")", fmt.Sprintf("%d items with anonymous owners\ntop-level array: %s\n%s: %s", n, tailStr(want, 500), f.name, tailStr(v, 500)), nil)
		}
		c.Outcome("big form " + f.name)
	}
	c.Count("states", int64(len(forms)))
	c.Count("transitions", int64(len(forms)))
	c.Count("traces_validated_against_impl", int64(len(forms)))
	c.Nontrivial(fmt.Sprintf("big/%d", n))
}

func c05Run(c *Ctx, cs c05Case) {
	if cs.Big > 0 {
		c05RunBig(c, cs)
		return
	}
	if c05Query == nil {
		q, r := Compile(c05Profile())
		if q == nil {
			panic("harness: C05 observer profile does not compile: " + r.ErrString())
		}
		c05Query = q
	}
	g := c05BaseGraph(cs.Graph)
	init := c05State{dom: OFromGraph(g), indent: ""}
	baseText := init.text()
	if cs.CLI {
		c05RunCLI(c, cs, init)
		return
	}
	baseNQ, err := c05NQuads(baseText)
	if err != nil {
		panic("harness: base graph is not valid JSON-LD: " + err.Error())
	}
	baseVerdict, r0 := c05Verdict(c, baseText)
	if r0.Err != nil || r0.Panic != nil {
		c.Violate("C05 base document rejected: "+firstLine(r0.ErrString()), baseText, nil)
		return
	}
	if !strings.Contains(baseVerdict, "|") {
		panic("harness: C05 base graph " + cs.Graph + " produces no results; observers would be vacuous")
	}
	check := func(st c05State, trace []string) {
		text := st.text()
		nq, err := c05NQuads(text)
		if err != nil || nq != baseNQ {
			panic(fmt.Sprintf("harness: rewrite sequence %v does not preserve the RDF dataset (err=%v)\n%s", trace, err, tailStr(text, 1500)))
		}
		c05WithDebug = len(trace) <= 1 || c.Tier == "thorough" // debug=true twin for the base and every single rewrite (thorough: everywhere)
		v, r := c05Verdict(c, text)
		c05WithDebug = true
		rc := c05Case{Graph: cs.Graph, Depth: len(trace), Part: 0, Parts: 1, Trace: trace}
		if r.Panic != nil {
			c.Violate("C05 panic on an equivalent serialisation at "+r.Panic.Sig(), fmt.Sprintf("rewrites %v\n%s", trace, tailStr(text, 1500)), rc)
			return
		}
		if r.Err != nil {
			c.Violate("C05 equivalent serialisation rejected: "+firstLine(r.Err.Error()), fmt.Sprintf("rewrites %v\n%s", trace, tailStr(text, 1500)), rc)
			return
		}
		if v != baseVerdict {
			last := trace[len(trace)-1]
			op := last
			if i := strings.Index(last, " node "); i > 0 {
				op = last[:i]
			}
			if strings.HasPrefix(op, "embed") {
				op = "embed"
			}
			if strings.HasPrefix(op, "hoist") {
				op = "hoist"
			}
			c.Violate("C05 verdict changes under re-serialisation (last rewrite: "+op+")", fmt.Sprintf("graph %s rewrites %v\nbase:  %s\nthis:  %s\ndocument:\n%s", cs.Graph, trace, tailStr(baseVerdict, 1200), tailStr(v, 1200), tailStr(text, 1500)), rc)
		}
		c.Outcome(cs.Graph + " verdict-class " + fmt.Sprint(h64(v)%1000))
	}
	// replay mode
	if len(cs.Trace) > 0 {
		st := init
		for _, lab := range cs.Trace {
			found := false
			for _, s := range c05Successors(st) {
				if s.label == lab {
					st, found = s.st, true
					break
				}
			}
			if !found {
				panic("harness: replay trace step not applicable: " + lab)
			}
		}
		check(st, cs.Trace)
		return
	}
	seenAt := map[uint64]int{h64(baseText): 0}
	var states, transitions int64
	if cs.Part == 0 {
		states++
	}
	var dfs func(st c05State, depth int, trace []string)
	dfs = func(st c05State, depth int, trace []string) {
		if depth == cs.Depth || c.Expired() {
			return
		}
		for _, s := range c05Successors(st) {
			text := s.st.text()
			h := h64(text)
			owned := int(h%uint64(cs.Parts)) == cs.Part
			tr := append(append([]string{}, trace...), s.label)
			if owned {
				transitions++
			}
			prev, seen := seenAt[h]
			if !seen {
				seenAt[h] = depth + 1
				if owned {
					states++
					check(s.st, tr)
				}
				dfs(s.st, depth+1, tr)
			} else if depth+1 < prev {
				seenAt[h] = depth + 1
				dfs(s.st, depth+1, tr)
			}
		}
	}
	dfs(init, 0, nil)
	if c.Expired() {
		c.CapHit("C05 search stopped by the soft deadline")
	}
	c.Count("states", states)
	c.Count("transitions", transitions)
	c.Count("traces_validated_against_impl", states)
	c.Max("depth", int64(cs.Depth))
	c.Nontrivial(fmt.Sprintf("%s/%d/%d", cs.Graph, cs.Part, cs.Depth))
	if cs.Part == 0 {
		succ := c05Successors(init)
		labels := []string{}
		for i, s := range succ {
			if i < 8 {
				labels = append(labels, s.label)
			}
		}
		c.Sample(map[string]any{"graph": cs.Graph, "depth": cs.Depth, "first_level_successors": len(succ), "some_rewrites": labels})
	}
}
