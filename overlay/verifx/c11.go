//go:build verif

package verifx

import (
	"context"
	"fmt"
	"sort"
	"strings"
	"time"

	"github.com/aml-org/amf-custom-validator/pkg"
	"github.com/aml-org/amf-custom-validator/pkg/events"
	"github.com/aml-org/amf-custom-validator/pkg/milestones"
	"github.com/open-policy-agent/opa/rego"
)

// C11 — progress events are well-bracketed and the channel is closed exactly once.
//
// Model: a small automaton per entry point, explored exhaustively (every
// reachable model state is checked against the invariants); conformance: every
// implementation run (entry flow x fault x channel capacity x consumer) is
// replayed through the automaton, and the model transitions exercised by the
// implementation are reported.

type stage struct {
	name        string
	start, done events.EventType
}

var (
	stProfile = []stage{
		{"ProfileParsing", events.ProfileParsingStart, events.ProfileParsingDone},
		{"RegoGeneration", events.RegoGenerationStart, events.RegoGenerationDone},
		{"RegoCompilation", events.RegoCompilationStart, events.RegoCompilationDone},
	}
	stData = []stage{
		{"InputDataParsing", events.InputDataParsingStart, events.InputDataParsingDone},
		{"InputDataNormalization", events.InputDataNormalizationStart, events.InputDataNormalizationDone},
		{"OpaValidation", events.OpaValidationStart, events.OpaValidationDone},
		{"BuildReport", events.BuildReportStart, events.BuildReportDone},
	}
)

// pipeState is a state of the model automaton for one call on one channel.
type pipeState struct {
	Stage    int  // index of the next stage to start (or the started one)
	Started  bool // the stage at index Stage has started and not completed
	Closed   bool
	Returned bool
	Failed   bool
	Bad      string // invariant violated on the way here
}

type pipeModel struct {
	stages       []stage
	closesOnOK   bool // validating calls close on success; a successful CompileProfile does not
	closesOnFail bool
}

func (m pipeModel) event(s pipeState, ev events.EventType) pipeState {
	if s.Bad != "" {
		return s
	}
	if s.Closed {
		s.Bad = "event after close"
		return s
	}
	if s.Returned {
		s.Bad = "event after return"
		return s
	}
	if s.Stage < len(m.stages) {
		st := m.stages[s.Stage]
		if !s.Started && ev == st.start {
			s.Started = true
			return s
		}
		if s.Started && ev == st.done {
			s.Started = false
			s.Stage++
			return s
		}
	}
	// classify the mismatch
	for i, st := range m.stages {
		if ev == st.done && !(s.Started && i == s.Stage) {
			s.Bad = fmt.Sprintf("completion of %s without its start", st.name)
			return s
		}
		if ev == st.start {
			if s.Started {
				s.Bad = fmt.Sprintf("%s starts while %s is still running (stages overlap)", st.name, m.stages[s.Stage].name)
			} else {
				s.Bad = fmt.Sprintf("%s starts out of pipeline order (expected %s)", st.name, m.nextName(s))
			}
			return s
		}
	}
	s.Bad = fmt.Sprintf("event %d does not belong to this call's stages", ev)
	return s
}

func (m pipeModel) nextName(s pipeState) string {
	if s.Stage < len(m.stages) {
		return m.stages[s.Stage].name
	}
	return "nothing"
}

// finish applies return (with the observed closure) and checks the closing rule.
func (m pipeModel) finish(s pipeState, failed, closedByLib bool) pipeState {
	if s.Bad != "" {
		return s
	}
	s.Returned, s.Failed, s.Closed = true, failed, closedByLib
	want := m.closesOnOK
	if failed {
		want = m.closesOnFail
	}
	if closedByLib != want {
		if want {
			s.Bad = "channel left open when the call returned"
		} else {
			s.Bad = "channel closed although a successful stand-alone compilation must leave it open"
		}
	}
	if !failed && s.Started {
		s.Bad = "call succeeded with a stage started and never completed"
	}
	return s
}

// exploreModel enumerates every reachable state of the model (all event
// sequences the alphabet allows, all return/close combinations) and returns
// (#states, #transitions); it panics if a state accepted by the model breaks
// an invariant the statement requires (self-check of the model).
func exploreModel(m pipeModel) (int, int) {
	type key struct {
		pipeState
	}
	var alphabet []events.EventType
	for _, st := range m.stages {
		alphabet = append(alphabet, st.start, st.done)
	}
	seen := map[pipeState]bool{}
	frontier := []pipeState{{}}
	seen[pipeState{}] = true
	trans := 0
	for len(frontier) > 0 {
		s := frontier[0]
		frontier = frontier[1:]
		if s.Bad != "" || s.Returned {
			continue
		}
		var succ []pipeState
		for _, ev := range alphabet {
			succ = append(succ, m.event(s, ev))
		}
		for _, failed := range []bool{false, true} {
			for _, closed := range []bool{false, true} {
				succ = append(succ, m.finish(s, failed, closed))
			}
		}
		for _, t := range succ {
			trans++
			if t.Bad == "" {
				// invariants of accepted states
				if t.Returned && !t.Failed && t.Closed != m.closesOnOK {
					panic("model self-check: accepted success state with wrong closure")
				}
				if t.Stage > len(m.stages) {
					panic("model self-check: stage index out of range")
				}
			}
			if !seen[t] {
				seen[t] = true
				frontier = append(frontier, t)
			}
		}
	}
	return len(seen), trans
}

// ---- faults -------------------------------------------------------------------

type c11Fault struct {
	name    string
	profile string
	data    string
	stage   string // stage in which the error must arise ("" = no fault)
	badQ    bool   // use a caller-built query over an undefined rule
}

func c11Faults() []c11Fault {
	okP, okD := seedProfilePlain, seedDataPlain
	return []c11Fault{
		{"none", okP, okD, "", false},
		{"none-empty-graph", okP, `{}`, "", false},
		{"none-empty-array", okP, `[]`, "", false},
		{"profile-not-yaml", "profile: [unclosed\n", okD, "ProfileParsing", false},
		{"profile-not-a-map", "- a\n- b\n", okD, "ProfileParsing", false},
		{"profile-empty", "", okD, "ProfileParsing", false},
		{"no-validations", "profile: x\n", okD, "ProfileParsing", false},
		{"missing-targetClass", "profile: x\nviolation: [v]\nvalidations:\n  v:\n    propertyConstraints:\n      ex.p: {minCount: 1}\n", okD, "ProfileParsing", false},
		{"unparsable-path", "profile: x\nprefixes: {ex: http://ex.org/}\nviolation: [v]\nvalidations:\n  v:\n    targetClass: ex.T\n    propertyConstraints:\n      \"(ex.p\": {minCount: 1}\n", okD, "ProfileParsing", false},
		{"parser-panics-on-complex-key", "profile: x\nprefixes: {ex: http://ex.org/}\nviolation: [v]\nvalidations:\n  v:\n    targetClass: ex.T\n    propertyConstraints:\n      ? [a, b]\n      : {minCount: 1}\n", okD, "ProfileParsing", false},
		{"unknown-prefix", "profile: x\nviolation: [v]\nvalidations:\n  v:\n    targetClass: nope.T\n    propertyConstraints:\n      nope.p: {minCount: 1}\n", okD, "RegoGeneration", false},
		{"rego-does-not-compile", "profile: x\nprefixes: {ex: http://ex.org/}\nviolation: [v]\nvalidations:\n  v:\n    targetClass: ex.T\n    rego: \"this is ( not rego\"\n", okD, "RegoCompilation", false},
		{"denied-builtin", "profile: x\nprefixes: {ex: http://ex.org/}\nviolation: [v]\nvalidations:\n  v:\n    targetClass: ex.T\n    rego: |\n      r = http.send({\"method\":\"get\",\"url\":\"http://127.0.0.1:1/\"})\n      $result = true\n", okD, "RegoCompilation", false},
		{"data-not-json", okP, "not json", "InputDataParsing", false},
		{"data-truncated", okP, okD[:len(okD)/2], "InputDataParsing", false},
		{"jsonld-rejected", okP, `{"@id":1}`, "InputDataNormalization", false},
		{"bad-source-map", okP, `{"@graph":[{"@id":"http://ex.org/sm","@type":"http://a.ml/vocabularies/document-source-maps#SourceMap","http://a.ml/vocabularies/document-source-maps#lexical":{"@id":"http://ex.org/dangling"}}]}`, "InputDataNormalization", false},
		{"evaluation-error", "profile: x\nprefixes: {ex: http://ex.org/}\nrego_extensions: |\n  report[\"profile\"] = \"other\"\nviolation: [v]\nvalidations:\n  v:\n    targetClass: ex.T\n    propertyConstraints:\n      ex.p1: {minCount: 1}\n", okD, "OpaValidation", false},
		{"empty-result-set", okP, okD, "BuildReport", true},
	}
}

type c11Case struct {
	Flow  string `json:"flow"`
	Fault string `json:"fault"`
}

var c11Flows = []string{"Validate", "ValidateWithConfiguration", "CompileProfile", "Compile+ValidateCompiled", "Compile+ValidateCompiledWithConfiguration", "Compile+ValidateCompiled+ValidateCompiled(new channels)"}

func init() {
	Register(Meta{
		ID: "C11", Level: "model_checking", HangIsViolation: true,
		Rule:        "model: per entry point an automaton over (next stage, started?, channel closed?, returned?, failed?) accepting exactly the prefixes of Start/Done pairs in pipeline order with the documented closing rule; all reachable model states are enumerated and self-checked. Conformance: 6 entry flows (Validate, ValidateWithConfiguration, CompileProfile alone, CompileProfile->ValidateCompiled, ->ValidateCompiledWithConfiguration, compile then two validations each with a new channel) x 18 faults (none x3, 6 profile faults in parsing, unknown prefix in generation, 2 in Rego compilation, 2 data parsing, 2 normalisation, evaluation error, empty result set from a caller-built query) x channel capacity {0,1,64} x consumer {collector, milestones.GenerateMilestonesFromEvents} (+ a slow collector at capacities 1, 2, 5 and a slow milestone consumer on an unbuffered milestone channel at capacities 0 and 64): the observed event sequence, the closure (observed without timers: closing a closed channel panics) and the milestones are run through the automaton; each fault is first asserted to arise in its intended stage. Non-trivial = run with a fault; distinct by (flow, fault, capacity, consumer).",
		Assumptions: []string{"a failing stage may or may not emit its completion event (the statement allows both)"},
	}, func(tier string, emit func(c11Case)) {
		for _, fl := range c11Flows {
			for _, f := range c11Faults() {
				emit(c11Case{Flow: fl, Fault: f.name})
			}
		}
		if tier == "thorough" {
			// every ordered pair of faults across two consecutive validating calls (each with its own channel): what
			// the first call did must not change the bracketing or closing of the second
			for _, f1 := range c11Faults() {
				for _, f2 := range c11Faults() {
					emit(c11Case{Flow: "Validate;Validate", Fault: f1.name + ";" + f2.name})
				}
			}
		}
	}, c11Run)
}

func c11BadQuery() *rego.PreparedEvalQuery {
	q, err := rego.New(rego.Query("data.nothing.report"), rego.Module("m.rego", "package something\nx = 1\n")).PrepareForEval(context.Background())
	if err != nil {
		panic("harness: " + err.Error())
	}
	return &q
}

type c11Obs struct {
	evs        []events.Event
	closed     bool
	res        CallRes
	miles      []milestones.Milestone
	milesEnded bool
}

// c11Call runs one library call with a fresh channel of the given capacity and consumer.
// c11Slow makes the collector pause after every event it takes (a slow consumer). With a correct (blocking) producer
// this only slows the run down; it can never change what is delivered.
var c11Slow = false

func c11Call(capacity int, useMilestones bool, call func(ch *chan events.Event) CallRes) c11Obs {
	var o c11Obs
	ch := make(chan events.Event, capacity)
	done := make(chan struct{})
	if useMilestones {
		// a tee: the harness needs the raw events too
		raw := make(chan events.Event, 256)
		mcap := 256
		if c11Slow {
			mcap = 0 // a slow milestone consumer on an unbuffered milestone channel: the generator's sends block
		}
		mch := make(chan milestones.Milestone, mcap)
		go func() {
			for e := range ch {
				o.evs = append(o.evs, e)
				raw <- e
			}
			close(raw)
		}()
		go func() {
			milestones.GenerateMilestonesFromEvents(&raw, &mch)
		}()
		go func() {
			for m := range mch {
				o.miles = append(o.miles, m)
				if c11Slow {
					time.Sleep(3 * time.Millisecond)
				}
			}
			o.milesEnded = true
			close(done)
		}()
	} else {
		go func() {
			for e := range ch {
				o.evs = append(o.evs, e)
				if c11Slow {
					time.Sleep(2 * time.Millisecond)
				}
			}
			close(done)
		}()
	}
	o.res = call(&ch)
	o.closed = func() (closed bool) {
		defer func() {
			if r := recover(); r != nil {
				closed = true
			}
		}()
		close(ch)
		return false
	}()
	<-done
	return o
}

func c11Run(c *Ctx, cs c11Case) {
	if cs.Flow == "Validate;Validate" {
		names := strings.SplitN(cs.Fault, ";", 2)
		for k, nm := range names {
			sub := c11Case{Flow: "ValidateWithConfiguration", Fault: nm}
			if k == 1 {
				sub.Flow = "Validate"
			}
			c11Run(c, sub)
		}
		return
	}
	var f c11Fault
	for _, x := range c11Faults() {
		if x.name == cs.Fault {
			f = x
		}
	}
	mCompile := pipeModel{stages: stProfile, closesOnOK: false, closesOnFail: true}
	mValidate := pipeModel{stages: append(append([]stage{}, stProfile...), stData...), closesOnOK: true, closesOnFail: true}
	mCompiled := pipeModel{stages: stData, closesOnOK: true, closesOnFail: true}
	// model exploration (once per case is cheap; counted once via part 0)
	if cs.Flow == c11Flows[0] && cs.Fault == "none" {
		for _, m := range []pipeModel{mCompile, mValidate, mCompiled} {
			s, t := exploreModel(m)
			c.Count("states", int64(s))
			c.Count("transitions", int64(t))
		}
	}
	judge := func(m pipeModel, o c11Obs, what string, expectStage string, mustFail bool, useMiles bool, capacity int) {
		c.Eval(1)
		c.Count("traces_validated_against_impl", 1)
		where := fmt.Sprintf("flow=%s fault=%s call=%s capacity=%d consumer=%s", cs.Flow, cs.Fault, what, capacity, map[bool]string{true: "milestones", false: "collector"}[useMiles])
		if o.res.Panic != nil {
			c.Violate("C11 panic with an event channel: "+o.res.Panic.Class+" at "+o.res.Panic.Site, where+"\n"+o.res.Panic.Value, nil)
			return
		}
		failed := o.res.Err != nil
		if mustFail != failed {
			// fault attribution self-check: the fault must (not) make the call fail
			panic(fmt.Sprintf("harness: %s: expected failure=%v, got err=%v", where, mustFail, o.res.Err))
		}
		s := pipeState{}
		var names []string
		for _, e := range o.evs {
			s = m.event(s, e.EventType)
			names = append(names, fmt.Sprint(e.EventType))
		}
		lastStarted := ""
		{
			t := pipeState{}
			for _, e := range o.evs {
				t2 := m.event(t, e.EventType)
				if t2.Bad != "" {
					break
				}
				if t2.Started {
					lastStarted = m.stages[t2.Stage].name
				} else if t2.Stage > 0 {
					lastStarted = m.stages[t2.Stage-1].name
				}
				t = t2
			}
		}
		s = m.finish(s, failed, o.closed)
		if s.Bad != "" {
			c.Violate("C11 "+s.Bad, fmt.Sprintf("%s\nevents: %v\nerr: %v", where, names, o.res.Err), nil)
		}
		if failed && expectStage != "" && lastStarted != expectStage {
			// stage attribution: the fault is meant to hit a given stage
			c.Note(fmt.Sprintf("fault %s arose in stage %q (intended %q) for %s", cs.Fault, lastStarted, expectStage, what))
		}
		if failed {
			c.Outcome(fmt.Sprintf("%s fails in %s closed=%v", what, lastStarted, o.closed))
			c.Count("fault_in_"+lastStarted+"/"+what, 1)
		} else {
			c.Outcome(fmt.Sprintf("%s succeeds events=%d closed=%v", what, len(o.evs), o.closed))
		}
		if useMiles {
			if !o.milesEnded {
				c.Violate("C11 milestone channel not closed", where, nil)
			}
			// one milestone per completed stage, matching operation, non-negative duration
			var wantOps []string
			t := pipeState{}
			for _, e := range o.evs {
				t2 := m.event(t, e.EventType)
				if t2.Bad != "" {
					break
				}
				if t.Started && !t2.Started {
					wantOps = append(wantOps, m.stages[t.Stage].name)
				}
				t = t2
			}
			var gotOps []string
			for _, ml := range o.miles {
				gotOps = append(gotOps, string(ml.Operation))
				if ml.Duration < 0 {
					c.Violate("C11 milestone with negative duration", fmt.Sprintf("%s %v", where, ml), nil)
				}
			}
			if strings.Join(wantOps, ",") != strings.Join(gotOps, ",") {
				missing := map[string]bool{}
				for _, w := range wantOps {
					missing[w] = true
				}
				for _, g := range gotOps {
					delete(missing, g)
				}
				ks := sortedKeys(missing)
				sort.Strings(ks)
				c.Violate("C11 milestones are not one per completed stage (missing: "+strings.Join(ks, ",")+")", fmt.Sprintf("%s\ncompleted stages: %v\nmilestones:       %v", where, wantOps, gotOps), nil)
			}
		}
	}
	profileFault := f.stage == "ProfileParsing" || f.stage == "RegoGeneration" || f.stage == "RegoCompilation"
	type cc struct {
		capacity int
		um, slow bool
	}
	var confs []cc
	for _, capacity := range []int{0, 1, 64} {
		for _, um := range []bool{false, true} {
			confs = append(confs, cc{capacity, um, false})
		}
	}
	confs = append(confs, cc{1, false, true}, cc{2, false, true}, cc{5, false, true})
	// a slow consumer of the MILESTONES (unbuffered milestone channel, 3 ms per milestone) behind an unbuffered and a
	// buffered event channel: durations must still be non-negative, one per completed stage
	confs = append(confs, cc{0, true, true}, cc{64, true, true})
	for _, cf := range confs {
		{
			capacity, um := cf.capacity, cf.um
			c11Slow = cf.slow
			c.Nontrivial(fmt.Sprintf("%s/%s/%d/%v", cs.Flow, cs.Fault, capacity, um))
			switch cs.Flow {
			case "Validate", "ValidateWithConfiguration":
				if f.badQ {
					continue
				}
				o := c11Call(capacity, um, func(ch *chan events.Event) CallRes {
					if cs.Flow == "Validate" {
						return protect(func() (string, error) { return pkg.Validate(f.profile, f.data, false, ch) })
					}
					return ValidateConf(f.profile, f.data, Epoch2000, DefaultReportConf(), ch)
				})
				judge(mValidate, o, cs.Flow, f.stage, f.stage != "", um, capacity)
			case "Compile+ValidateCompiled", "Compile+ValidateCompiledWithConfiguration":
				// one channel through both calls: a successful compilation must leave it open for the validation
				var q *rego.PreparedEvalQuery
				compiledOK := false
				o := c11Call(capacity, um, func(ch *chan events.Event) CallRes {
					var r CallRes
					q, r = CompileCh(f.profile, ch)
					if q == nil || r.Err != nil || r.Panic != nil {
						return r
					}
					compiledOK = true
					if f.badQ {
						q = c11BadQuery()
					}
					if cs.Flow == "Compile+ValidateCompiled" {
						return protect(func() (string, error) { return pkg.ValidateCompiled(q, f.data, false, ch) })
					}
					return ValidateCompiledConf(q, f.data, Epoch2000, DefaultReportConf(), ch)
				})
				if compiledOK {
					judge(mValidate, o, cs.Flow, f.stage, f.stage != "", um, capacity)
				} else {
					judge(mCompile, o, "CompileProfile(then nothing)", f.stage, profileFault, um, capacity)
				}
			default:
				var q *rego.PreparedEvalQuery
				o := c11Call(capacity, um, func(ch *chan events.Event) CallRes {
					var r CallRes
					q, r = CompileCh(f.profile, ch)
					return r
				})
				judge(mCompile, o, "CompileProfile", f.stage, profileFault, um, capacity)
				if cs.Flow == "CompileProfile" || q == nil {
					continue
				}
				if f.badQ {
					q = c11BadQuery()
				}
				for k := 0; k < 2; k++ {
					o2 := c11Call(capacity, um, func(ch *chan events.Event) CallRes {
						if k == 0 {
							return protect(func() (string, error) { return pkg.ValidateCompiled(q, f.data, false, ch) })
						}
						return ValidateCompiledConf(q, f.data, Epoch2000, DefaultReportConf(), ch)
					})
					judge(mCompiled, o2, fmt.Sprintf("ValidateCompiled#%d", k+1), f.stage, f.stage != "" && !profileFault, um, capacity)
				}
			}
		}
	}
	c.Sample(map[string]any{"flow": cs.Flow, "fault": cs.Fault})
}
