//go:build verif

package verifx

import (
	"encoding/json"
	"fmt"
	"os"
	"path/filepath"
	"strings"
	"time"

	"github.com/aml-org/amf-custom-validator/pkg/config"
)

// C03 — conforms, severities and report header agree with the result list.

type c03Case struct {
	K         int    `json:"k"`          // number of validations v1..vk
	Levels    []int  `json:"levels"`     // per validation: bitmask of levels it is listed under (1=violation,2=warning,4=info)
	Extras    int    `json:"extras"`     // bitmask of levels that also list an undefined name
	EmptyList bool   `json:"empty_list"` // an empty level is written `level: []` instead of being absent
	Name      string `json:"name"`
}

var c03Levels = []string{"violation", "warning", "info"}
var c03Sev = []string{"Violation", "Warning", "Info"}

func c03Profile(cs c03Case) string {
	top := M("profile", YQ(cs.Name), "prefixes", M("ex", EX))
	for li, lname := range c03Levels {
		var names []any
		for i := 0; i < cs.K; i++ {
			if cs.Levels[i]&(1<<li) != 0 {
				names = append(names, fmt.Sprintf("v%d", i+1))
			}
		}
		if cs.Extras&(1<<li) != 0 {
			names = append(names, "ghost-"+lname)
		}
		if len(names) > 0 || cs.EmptyList {
			if names == nil {
				names = []any{}
			}
			top.Set(lname, names)
		}
	}
	vals := M()
	for i := 0; i < cs.K; i++ {
		vals.Set(fmt.Sprintf("v%d", i+1), M(
			"message", fmt.Sprintf("m%d", i+1),
			"targetClass", "ex.T",
			"propertyConstraints", M(fmt.Sprintf("ex.p%d", i+1), M("minCount", 1)),
		))
	}
	top.Set("validations", vals)
	return EmitYAML(top)
}

type c03Conf struct {
	name  string
	rc    config.ReportConfiguration
	clock FixedClock
}

func c03Confs(tier string) []c03Conf {
	clocks := []FixedClock{
		{time.Unix(0, 0).UTC()},
		Epoch2000,
		{time.Date(9999, 12, 31, 23, 59, 59, 0, time.UTC)},
		{time.Date(2021, 3, 4, 5, 6, 7, 0, time.FixedZone("X", -7*3600-30*60))},
	}
	iris := [][2]string{
		{"file:///dialects/validation-report.yaml", "file:///dialects/lexical.yaml"},
		{"http://custom.org/report.yaml", "urn:x:lexical"},
		{"", ""},
	}
	var out []c03Conf
	for _, inc := range []bool{true, false} {
		for ii, ir := range iris {
			for ci, cl := range clocks {
				if !inc && ci > 0 {
					continue // clock is unobservable without dateCreated; one instance suffices
				}
				out = append(out, c03Conf{
					name:  fmt.Sprintf("inc=%v iri=%d clock=%d", inc, ii, ci),
					rc:    config.ReportConfiguration{IncludeReportCreationTime: inc, ReportSchemaIri: ir[0], LexicalSchemaIri: ir[1]},
					clock: cl,
				})
			}
		}
	}
	return out
}

func init() {
	Register(Meta{
		ID: "C03", Level: "exploration",
		Rule:        "every profile with k<=K minCount validations, each listed under any subset of {violation,warning,info}, x undefined extra names per level x empty-level spelling x profile-name spelling (8 names incl. quotes, non-ASCII, non-printable code points above U+FFFF, a BOM, 300 characters, formatting verbs); evaluated on the 2^k truth-table graph and on a graph with no target node under 15 report configurations (dateCreated flag x schema IRIs x 4 clocks); plus the reports the built command line tool leaves in one output file after every ordered pair of {violations+warnings, warnings only, no results} (absent file / longer junk first) and prints. Non-trivial = profile whose expected report has at least one result and whose expected severities are not all Violation, or that has no result at all on the no-target graph (both conforms values occur); distinct by profile text.",
		Assumptions: []string{"atomic constraint minCount 1 behaves as 'has a value' (checked separately by C01 atom catalogue)"},
	}, c03Gen, c03Run)
}

func c03Gen(tier string, emit func(c03Case)) {
	emit(c03Case{Name: "__cli__"})
	maxK := 2
	if tier == "thorough" {
		maxK = 3
	}
	// the profile name is echoed as profileName: beside two plain names, names with characters that escaping or
	// formatting helpers single out (only for k <= 1, they do not interact with the level structure)
	names := []string{"P", "My Profile 1.0", "qu\"ote \\ back", "é日😀", "tag \U000E0067\U000F0001\U0001D173 chars", "\ufeffbom \u2028 sep", strings.Repeat("n", 300), "50%v %d {{x}} $message"}
	for k := 0; k <= maxK; k++ {
		total := 1
		for i := 0; i < k; i++ {
			total *= 8
		}
		for a := 0; a < total; a++ {
			lv := make([]int, k)
			x := a
			for i := 0; i < k; i++ {
				lv[i] = x % 8
				x /= 8
			}
			for extras := 0; extras < 8; extras++ {
				for _, el := range []bool{false, true} {
					for ni, nm := range names {
						if ni > 0 && (extras != 0 || el) || ni > 1 && k > 1 {
							continue
						}
						emit(c03Case{K: k, Levels: lv, Extras: extras, EmptyList: el, Name: nm})
					}
				}
			}
		}
	}
}

func c03Strip(text string) (string, error) {
	var top []map[string]any
	if err := json.Unmarshal([]byte(text), &top); err != nil {
		return "", err
	}
	if len(top) != 1 {
		return "", fmt.Errorf("not one instance")
	}
	if ctx, ok := top[0]["@context"].(map[string]any); ok {
		delete(ctx, "reportSchema")
		delete(ctx, "lexicalSchema")
	}
	if enc, ok := top[0]["doc:encodes"].([]any); ok && len(enc) == 1 {
		if rn, ok := enc[0].(map[string]any); ok {
			delete(rn, "dateCreated")
		}
	}
	b, _ := json.Marshal(top)
	return string(b), nil
}

// c03RunCLI: the report the command line tool leaves in an output file (and prints) obeys the same rules, whatever the
// file held before: every ordered pair of {many violations+warnings, warnings only, no results} written to one path,
// from an absent file and over longer junk.
func c03RunCLI(c *Ctx) {
	if os.Getenv("VERIF_ACV") == "" {
		panic("harness: VERIF_ACV not set (C03 cli family needs the built command line tool)")
	}
	dir, err := os.MkdirTemp(os.Getenv("VERIF_WORK"), "c03cli")
	if err != nil {
		panic("harness: " + err.Error())
	}
	defer os.RemoveAll(dir)
	prof := c03Profile(c03Case{K: 2, Levels: []int{1, 2}, Name: "cli"})
	long := &Graph{}
	for r := 0; r < 10; r++ {
		for _, n := range TruthTableGraph(2, false).Nodes {
			cp := long.Add(fmt.Sprintf("%s-r%d", n.ID, r), n.Types...)
			cp.Props = n.Props
		}
	}
	warn := &Graph{}
	warn.Add(nid(0), EX+"T").P(EX+"p1", "v")
	none := &Graph{}
	none.Add(nid(0), EX+"U")
	graphs := []*Graph{long, warn, none}
	names := []string{"violations+warnings", "warnings only", "no results"}
	var want []*Report
	os.WriteFile(filepath.Join(dir, "p.yaml"), []byte(prof), 0o644)
	for i, g := range graphs {
		os.WriteFile(filepath.Join(dir, fmt.Sprintf("d%d.jsonld", i)), []byte(g.FlatJSONLD()), 0o644)
		r := Validate(prof, g.FlatJSONLD())
		rep, err := ParseReport(r.Report)
		if r.Err != nil || r.Panic != nil || err != nil {
			c.Violate("C03 cli family: the library rejects the input: "+firstLine(r.ErrString()), prof, nil)
			return
		}
		want = append(want, rep)
	}
	if want[0].Conforms || !want[1].Conforms || len(want[1].Results) == 0 || want[2].HasResult {
		panic("harness: C03 cli family inputs do not have the intended verdicts")
	}
	check := func(where, text string, d int) {
		rep, err := ParseReport(strings.TrimSpace(text))
		if err != nil {
			c.Violate("C03 the report left by the command line tool cannot be read [cli]", fmt.Sprintf("%s: %v\nstarts: %s", where, err, tailStr(text, 400)), nil)
			return
		}
		viol := false
		for _, r := range rep.Results {
			viol = viol || shortSev(r.Severity) == "Violation"
		}
		if rep.Conforms == viol || rep.HasResult != (len(rep.Results) > 0) || rep.Verdict() != want[d].Verdict() || rep.ProfileName != want[d].ProfileName {
			c.Violate("C03 the report left by the command line tool differs from the library's [cli]", fmt.Sprintf("%s\nlibrary: %s\ncli:     %s", where, tailStr(want[d].Verdict(), 500), tailStr(rep.Verdict(), 500)), nil)
		}
	}
	out := filepath.Join(dir, "out.json")
	for _, junk := range []bool{false, true} {
		for a := 0; a < 3; a++ {
			for b := 0; b < 3; b++ {
				os.Remove(out)
				hist := ""
				if junk {
					os.WriteFile(out, []byte(strings.Repeat("{\"conforms\": false, \"junk\": true}\n", 20000)), 0o644)
					hist = "junk, "
				}
				for _, d := range []int{a, b} {
					hist += names[d] + ", "
					r := c18Exec(dir, "validate", "p.yaml", fmt.Sprintf("d%d.jsonld", d), "out.json")
					c.Eval(1)
					text, _ := os.ReadFile(out)
					if r.exit != 0 {
						c.Violate("C03 the command line tool fails on valid input [cli]", fmt.Sprintf("runs: %s exit=%d", hist, r.exit), nil)
						continue
					}
					check("output file after the runs: "+hist, string(text), d)
				}
			}
		}
	}
	for d := range graphs {
		r := c18Exec(dir, "validate", "p.yaml", fmt.Sprintf("d%d.jsonld", d))
		c.Eval(1)
		check("stdout for "+names[d], r.stdout, d)
	}
	c.Outcome("cli family")
	c.Nontrivial("cli")
}

func c03Run(c *Ctx, cs c03Case) {
	if cs.Name == "__cli__" {
		c03RunCLI(c)
		return
	}
	prof := c03Profile(cs)
	q, cr := Compile(prof)
	if cr.Panic != nil || cr.Err != nil {
		c.Violate("C03 compile failed: "+firstLine(cr.ErrString()), "profile:\n"+prof+"\n"+cr.ErrString(), nil)
		return
	}
	tt := TruthTableGraph(cs.K, false)
	// a non-target node so the document is never empty
	tt.Add(EX+"other", EX+"U")
	noTarget := &Graph{}
	noTarget.Add(EX+"other", EX+"U").P(EX+"p1", "v")
	graphs := []struct {
		name string
		g    *Graph
		tt   bool
	}{{"truthtable", tt, true}, {"notarget", noTarget, false}}
	if cs.K >= 1 && cs.Extras == 0 && !cs.EmptyList && cs.Name == "P" {
		// size thresholds: the same truth table replicated 40 times (>= 40 results per failing validation and level)
		big := &Graph{}
		for r := 0; r < 40; r++ {
			for _, n := range tt.Nodes {
				if strings.HasSuffix(n.ID, "other") {
					continue
				}
				cp := big.Add(fmt.Sprintf("%s-r%d", n.ID, r), n.Types...)
				cp.Props = n.Props
			}
		}
		graphs = append(graphs, struct {
			name string
			g    *Graph
			tt   bool
		}{"truthtable-x40", big, true})
	}

	for _, gr := range graphs {
		data := gr.g.FlatJSONLD()
		// expected result set
		exp := map[string]bool{}
		anyViolation := false
		nonViolation := false
		if gr.tt {
			reps := []string{""}
			if gr.name == "truthtable-x40" {
				reps = nil
				for r := 0; r < 40; r++ {
					reps = append(reps, fmt.Sprintf("-r%d", r))
				}
			}
			for i := 0; i < cs.K; i++ {
				for m := 0; m < 1<<cs.K; m++ {
					if m&(1<<i) != 0 {
						continue // has p_i -> passes
					}
					for li := range c03Levels {
						if cs.Levels[i]&(1<<li) != 0 {
							for _, rep := range reps {
								exp[c03Sev[li]+"|"+fmt.Sprintf("v%d", i+1)+"|"+nid(m)+rep] = true
							}
							if li == 0 {
								anyViolation = true
							} else {
								nonViolation = true
							}
						}
					}
				}
			}
		}
		if (len(exp) > 0 && nonViolation) || !gr.tt {
			c.Nontrivial(prof + gr.name)
		}
		var baseStripped string
		for ci, cf := range c03Confs(c.Tier) {
			res := ValidateCompiledConf(q, data, cf.clock, cf.rc, nil)
			c.Eval(1)
			where := fmt.Sprintf("graph=%s conf=[%s]", gr.name, cf.name)
			if res.Panic != nil || res.Err != nil {
				c.Violate("C03 validate failed: "+firstLine(res.ErrString()), where+"\nprofile:\n"+prof+"\n"+res.ErrString(), nil)
				return
			}
			rep, err := ParseReport(res.Report)
			if err != nil {
				c.Violate("C03 report malformed", where+"\n"+err.Error()+"\n"+res.Report, nil)
				return
			}
			got := map[string]bool{}
			dup := false
			for _, t := range rep.Results {
				k := shortSev(t.Severity) + "|" + t.Shape + "|" + t.Focus
				if got[k] {
					dup = true
				}
				got[k] = true
				if !strings.HasPrefix(t.Severity, "http://www.w3.org/ns/shacl#") {
					c.Violate("C03 severity IRI", where+" severity="+t.Severity, nil)
				}
			}
			_ = dup
			c.Outcome(fmt.Sprintf("conforms=%v results=%d date=%v", rep.Conforms, len(rep.Results), rep.DateCreated != nil))
			if !setEq(got, exp) {
				c.Violate("C03 severity/result set mismatch", fmt.Sprintf("%s\nexpected %s\ngot      %s\nprofile:\n%s", where, setStr(exp), setStr(got), prof), nil)
			}
			hasViolation := false
			for _, t := range rep.Results {
				if shortSev(t.Severity) == "Violation" {
					hasViolation = true
				}
			}
			if !rep.HasConforms || rep.Conforms != !hasViolation {
				c.Violate("C03 conforms disagrees with result list", fmt.Sprintf("%s conforms=%v(has=%v) violationResults=%v expectedAnyViolation=%v\nprofile:\n%s\nreport:\n%s", where, rep.Conforms, rep.HasConforms, hasViolation, anyViolation, prof, res.Report), nil)
			}
			if rep.HasResult != (len(rep.Results) > 0) {
				c.Violate("C03 result key presence", fmt.Sprintf("%s hasResultKey=%v n=%d", where, rep.HasResult, len(rep.Results)), nil)
			}
			if rep.ProfileName != cs.Name {
				c.Violate("C03 profileName", fmt.Sprintf("%s profileName=%q want %q", where, rep.ProfileName, cs.Name), nil)
			}
			if cf.rc.IncludeReportCreationTime {
				want := cf.clock.T.Format(time.RFC3339)
				if rep.DateCreated == nil || *rep.DateCreated != want {
					g := "<absent>"
					if rep.DateCreated != nil {
						g = *rep.DateCreated
					}
					c.Violate("C03 dateCreated value", fmt.Sprintf("%s dateCreated=%s want %s", where, g, want), nil)
				}
			} else if rep.DateCreated != nil {
				c.Violate("C03 dateCreated present though not requested", where+" dateCreated="+*rep.DateCreated, nil)
			}
			if rs, _ := rep.Context["reportSchema"].(string); rs != cf.rc.ReportSchemaIri+"#/declarations/" {
				c.Violate("C03 report schema IRI", fmt.Sprintf("%s reportSchema=%q", where, rs), nil)
			}
			if len(rep.Results) > 0 {
				if ls, _ := rep.Context["lexicalSchema"].(string); ls != cf.rc.LexicalSchemaIri+"#/declarations/" {
					c.Violate("C03 lexical schema IRI", fmt.Sprintf("%s lexicalSchema=%q", where, ls), nil)
				}
			}
			st, err := c03Strip(res.Report)
			if err != nil {
				c.Violate("C03 report malformed", where+" strip: "+err.Error(), nil)
				return
			}
			if ci == 0 {
				baseStripped = st
			} else if st != baseStripped {
				c.Violate("C03 report configuration changes something else", fmt.Sprintf("%s\nbase: %s\nthis: %s", where, baseStripped, st), nil)
			}
		}
	}
	c.Sample(map[string]any{"profile": prof, "graph": tt.String()})
}

func firstLine(s string) string {
	if i := strings.Index(s, "\n"); i >= 0 {
		s = s[:i]
	}
	if len(s) > 160 {
		s = s[:160]
	}
	return s
}
