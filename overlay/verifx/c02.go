//go:build verif

package verifx

import (
	"encoding/json"
	"fmt"
	"sort"
	"strings"
)

// C02 — property paths denote composition, union and converse of graph edges.

type c02Case struct {
	Paths []*PExpr `json:"paths"`
	Set   string   `json:"set"` // graph family: g2, g3, suite
	Paren bool     `json:"paren,omitempty"`
	Split bool     `json:"split,omitempty"` // every node described by two @graph entries sharing its @id
	NS    string   `json:"ns,omitempty"` // the namespace bound to prefix ex (default http://ex.org/): profile and documents are rewritten to it
}

func (p *PExpr) Skel() string {
	switch p.Kind {
	case "pred":
		if p.Inv {
			return "_^"
		}
		return "_"
	case "type":
		return "@type"
	}
	parts := make([]string, len(p.Kids))
	for i, k := range p.Kids {
		parts[i] = k.Skel()
	}
	if p.Kind == "seq" {
		return "S[" + strings.Join(parts, " ") + "]"
	}
	return "A[" + strings.Join(parts, " ") + "]"
}

// PathASTs enumerates every path AST with exactly n leaves over the given
// leaves: n-ary sequences and alternatives with any nesting (a sequence may be
// an operand of a sequence — written with parentheses — and likewise for alternatives).
func PathASTs(n int, leaves []*PExpr) []*PExpr {
	memo := map[int][]*PExpr{}
	var gen func(n int) []*PExpr
	gen = func(n int) []*PExpr {
		if r, ok := memo[n]; ok {
			return r
		}
		var out []*PExpr
		if n == 1 {
			out = append(out, leaves...)
			memo[n] = out
			return out
		}
		// compositions of n into k>=2 parts
		var comps func(rem int, cur []int, f func([]int))
		comps = func(rem int, cur []int, f func([]int)) {
			if rem == 0 {
				if len(cur) >= 2 {
					f(cur)
				}
				return
			}
			for a := 1; a <= rem; a++ {
				comps(rem-a, append(append([]int{}, cur...), a), f)
			}
		}
		comps(n, nil, func(parts []int) {
			var rec func(i int, cur []*PExpr)
			rec = func(i int, cur []*PExpr) {
				if i == len(parts) {
					k := append([]*PExpr{}, cur...)
					out = append(out, PS(k...), PA(k...))
					return
				}
				for _, sub := range gen(parts[i]) {
					rec(i+1, append(cur, sub))
				}
			}
			rec(0, nil)
		})
		memo[n] = out
		return out
	}
	return gen(n)
}

var c02Leaves = []*PExpr{PP("ex.p"), PP("ex.q"), PI("ex.p"), PI("ex.q"), PT()}

// ---- graph families ---------------------------------------------------------

type c02Edge struct {
	S    int
	Pred int // 0 = p, 1 = q
	O    int // 0..2 node, 3..4 literal l0,l1
}

func (e c02Edge) key() string { return fmt.Sprintf("%d%d%d", e.S, e.Pred, e.O) }

func c02AllEdges() []c02Edge {
	var es []c02Edge
	for s := 0; s < 3; s++ {
		for p := 0; p < 2; p++ {
			for o := 0; o < 5; o++ {
				es = append(es, c02Edge{s, p, o})
			}
		}
	}
	return es
}

var perms3 = [][3]int{{0, 1, 2}, {0, 2, 1}, {1, 0, 2}, {1, 2, 0}, {2, 0, 1}, {2, 1, 0}}

func c02Canon(es []c02Edge) string {
	best := ""
	for _, pm := range perms3 {
		ks := make([]string, len(es))
		for i, e := range es {
			o := e.O
			if o < 3 {
				o = pm[o]
			}
			ks[i] = c02Edge{pm[e.S], e.Pred, o}.key()
		}
		sort.Strings(ks)
		s := strings.Join(ks, ",")
		if best == "" || s < best {
			best = s
		}
	}
	return best
}

func c02Self(es []c02Edge) string {
	ks := make([]string, len(es))
	for i, e := range es {
		ks[i] = e.key()
	}
	sort.Strings(ks)
	return strings.Join(ks, ",")
}

// c02EdgeGraphs returns all edge subsets of size <= maxE up to node renaming.
func c02EdgeGraphs(maxE int) [][]c02Edge {
	all := c02AllEdges()
	var out [][]c02Edge
	var rec func(start int, cur []c02Edge)
	rec = func(start int, cur []c02Edge) {
		if c02Self(cur) == c02Canon(cur) {
			out = append(out, append([]c02Edge{}, cur...))
		}
		if len(cur) == maxE {
			return
		}
		for i := start; i < len(all); i++ {
			rec(i+1, append(cur, all[i]))
		}
	}
	rec(0, nil)
	return out
}

func c02BuildEdgeGraph(prefix string, es []c02Edge) *Graph {
	g := &Graph{}
	for i := 0; i < 3; i++ {
		g.Add(fmt.Sprintf("%s%sn%d", EX, prefix, i), EX+"T")
	}
	preds := []string{EX + "p", EX + "q"}
	for _, e := range es {
		n := g.Nodes[e.S]
		if e.O < 3 {
			n.P(preds[e.Pred], Ref(g.Nodes[e.O].ID))
		} else {
			n.P(preds[e.Pred], fmt.Sprintf("l%d", e.O-3))
		}
	}
	return g
}

// c02Suite: dense collision graphs.
func c02Suite() []*Graph {
	var out []*Graph
	mk := func(prefix string, n int) (*Graph, func(i int) string) {
		g := &Graph{}
		id := func(i int) string { return fmt.Sprintf("%s%sn%d", EX, prefix, i) }
		for i := 0; i < n; i++ {
			g.Add(id(i), EX+"T")
		}
		return g, id
	}
	P, Q := EX+"p", EX+"q"
	// 3-cycle on p, reversed on q
	g, id := mk("cyc/", 3)
	for i := 0; i < 3; i++ {
		g.Nodes[i].P(P, Ref(id((i+1)%3)))
		g.Nodes[i].P(Q, Ref(id((i+2)%3)))
	}
	out = append(out, g)
	// diamond with shared child
	g, id = mk("dia/", 4)
	g.Nodes[0].P(P, Ref(id(1)), Ref(id(2)))
	g.Nodes[1].P(Q, Ref(id(3)))
	g.Nodes[2].P(Q, Ref(id(3)))
	g.Nodes[2].P(P, Ref(id(3)))
	g.Nodes[3].P(P, "l0")
	out = append(out, g)
	// self loop + literal in mid path + same value under p and q
	g, id = mk("mix/", 3)
	g.Nodes[0].P(P, Ref(id(0)), "l0", Ref(id(1)))
	g.Nodes[0].P(Q, "l0", Ref(id(1)))
	g.Nodes[1].P(P, "l1", "l0")
	g.Nodes[1].P(Q, Ref(id(2)), Ref(id(0)))
	g.Nodes[2].Types = append(g.Nodes[2].Types, EX+"U")
	g.Nodes[2].P(Q, Ref(id(2)))
	out = append(out, g)
	// chain of length 4 with q shortcuts
	g, id = mk("chn/", 5)
	for i := 0; i < 4; i++ {
		g.Nodes[i].P(P, Ref(id(i+1)))
	}
	g.Nodes[0].P(Q, Ref(id(2)))
	g.Nodes[1].P(Q, Ref(id(3)), "l1")
	g.Nodes[4].P(Q, Ref(id(0)))
	g.Nodes[4].P(P, "l0", "l1")
	out = append(out, g)
	// complete p graph on 3 nodes, q to literals
	g, id = mk("cmp/", 3)
	for i := 0; i < 3; i++ {
		for j := 0; j < 3; j++ {
			g.Nodes[i].P(P, Ref(id(j)))
		}
		g.Nodes[i].P(Q, fmt.Sprintf("l%d", i%2))
	}
	out = append(out, g)
	// two parents sharing two children, children point back with q (two routes to the same node)
	g, id = mk("shr/", 4)
	g.Nodes[0].P(P, Ref(id(2)), Ref(id(3)))
	g.Nodes[1].P(P, Ref(id(2)), Ref(id(3)))
	g.Nodes[2].P(Q, Ref(id(0)), Ref(id(1)))
	g.Nodes[3].P(Q, Ref(id(1)))
	g.Nodes[3].P(P, Ref(id(3)))
	out = append(out, g)
	return out
}

type c02Doc struct {
	g    *Graph // union graph (ids are globally distinct)
	data string
}

var c02DocCache = map[string][]c02Doc{}

func c02Docs(set string) []c02Doc {
	if d, ok := c02DocCache[set]; ok {
		return d
	}
	var graphs []*Graph
	switch set {
	case "suite":
		graphs = c02Suite()
	case "g2", "g3":
		maxE := 2
		if set == "g3" {
			maxE = 3
		}
		for i, es := range c02EdgeGraphs(maxE) {
			graphs = append(graphs, c02BuildEdgeGraph(fmt.Sprintf("g%d/", i), es))
		}
	}
	var docs []c02Doc
	cur := &Graph{}
	flush := func() {
		if len(cur.Nodes) > 0 {
			docs = append(docs, c02Doc{g: cur, data: cur.FlatJSONLD()})
			cur = &Graph{}
		}
	}
	for _, g := range graphs {
		if len(cur.Nodes)+len(g.Nodes) > 12 {
			flush()
		}
		cur.Nodes = append(cur.Nodes, g.Nodes...)
	}
	flush()
	c02DocCache[set] = docs
	return docs
}

func init() {
	Register(Meta{
		ID: "C02", Level: "exploration",
		Rule:        "every path AST with <=L leaves over {ex.p, ex.q, ex.p^, ex.q^, @type} with n-ary and nested sequences/alternatives, canonical layout (+ a redundantly parenthesised variant), (quick: <=2 leaves over the full alphabet and 3 leaves over {p,q,p^}) on every graph with <=E edges over 3 nodes x 2 predicates x 2 literals up to node renaming, plus a suite of collision graphs (cycle, diamond, self-loop, literal mid-path, shared values, chain of 4, complete graph, two routes); every node is a focus node; the <=2-leaf paths are repeated on the suite with every node described by two @graph entries that share its @id, and with the prefix bound to 5 other namespace shapes (ending in #, _, :, = or nothing). Observers: `in:[__none__]` (set of reached values) and `maxCount:0` (number of distinct values). Oracle = set-valued denotation by structural recursion. Non-trivial = (path,document) pairs where some focus node has a non-empty denotation; distinct by path text x document.",
		Assumptions: []string{"values are IRIs or plain string literals (typed/language-tagged literals are outside the alphabet)"},
	}, c02Gen, c02Run)
}

const c02Pack = 6

func c02Gen(tier string, emit func(c02Case)) {
	pack := func(set string, ps []*PExpr, paren bool) {
		size := c02Pack
		if set == "g3" {
			size = 2 // ~10x more documents per path than g2: smaller cases keep each one well under the per-case watchdog
		}
		for i := 0; i < len(ps); i += size {
			j := i + size
			if j > len(ps) {
				j = len(ps)
			}
			emit(c02Case{Paths: ps[i:j], Set: set, Paren: paren})
		}
	}
	var upto3, four []*PExpr
	for n := 1; n <= 3; n++ {
		upto3 = append(upto3, PathASTs(n, c02Leaves)...)
	}
	four = PathASTs(4, c02Leaves)
	pack("suite", upto3, false)
	pack("suite", upto3, true)
	// the namespace bound to the prefix: ending in '#', '_', ':', '=' or in nothing at all (compact IRIs are plain
	// concatenation); every path with <=2 leaves on the suite
	{
		var upto2 []*PExpr
		for n := 1; n <= 2; n++ {
			upto2 = append(upto2, PathASTs(n, c02Leaves)...)
		}
		for i := 0; i < len(upto2); i += 2 * c02Pack {
			j := i + 2*c02Pack
			if j > len(upto2) {
				j = len(upto2)
			}
			emit(c02Case{Paths: upto2[i:j], Set: "suite", Split: true})
		}
		for _, ns := range []string{"http://ex.org/ns#", "http://ex.org/RO_", "urn:ex:", "http://ex.org/ns", "http://ex.org/v?x="} {
			for i := 0; i < len(upto2); i += 2 * c02Pack {
				j := i + 2*c02Pack
				if j > len(upto2) {
					j = len(upto2)
				}
				emit(c02Case{Paths: upto2[i:j], Set: "suite", NS: ns})
			}
		}
	}
	if tier == "thorough" {
		pack("g2", upto3, false)
	} else {
		// quick: on the edge-subset graphs, every path with <=2 leaves over the full alphabet and every 3-leaf path
		// over the alphabet {ex.p, ex.q, ex.p^}
		var g2q []*PExpr
		for n := 1; n <= 2; n++ {
			g2q = append(g2q, PathASTs(n, c02Leaves)...)
		}
		g2q = append(g2q, PathASTs(3, []*PExpr{PP("ex.p"), PP("ex.q"), PI("ex.p")})...)
		pack("g2", g2q, false)
	}
	if tier == "thorough" {
		pack("suite", four, false)
		pack("g2", four, false)
		pack("g3", upto3, false)
	} else {
		// quick: 4-leaf paths over a 3-leaf alphabet (forward, forward, inverse) on the suite
		pack("suite", PathASTs(4, []*PExpr{PP("ex.p"), PP("ex.q"), PI("ex.p")}), false)
	}
}

// renderParen renders with redundant parentheses around every alternative
// that is an operand of a sequence (same AST by the documented grammar).
func (p *PExpr) renderParen(ctx int) string {
	switch p.Kind {
	case "seq":
		parts := make([]string, len(p.Kids))
		for i, k := range p.Kids {
			parts[i] = k.renderParen(1)
		}
		s := strings.Join(parts, " / ")
		if ctx != 0 {
			return "(" + s + ")"
		}
		return s
	case "alt":
		parts := make([]string, len(p.Kids))
		for i, k := range p.Kids {
			parts[i] = k.renderParen(2)
		}
		s := strings.Join(parts, " | ")
		if ctx != 0 {
			return "(" + s + ")"
		}
		return s
	}
	return p.render(ctx)
}

func c02Profile(paths []*PExpr, paren bool) string {
	top := M("profile", "c02", "prefixes", M("ex", EX))
	var names []any
	vals := M()
	for i, p := range paths {
		txt := p.Render()
		if paren {
			txt = p.renderParen(0)
		}
		a, b := fmt.Sprintf("a%d", i), fmt.Sprintf("b%d", i)
		names = append(names, a, b)
		vals.Set(a, M("message", "m", "targetClass", "ex.T", "propertyConstraints", M(txt, M("in", strs("__none__")))))
		vals.Set(b, M("message", "m", "targetClass", "ex.T", "propertyConstraints", M(txt, M("maxCount", 0))))
	}
	top.Set("violation", names)
	top.Set("validations", vals)
	return EmitYAML(top)
}

// traceActuals returns the traceValue.actual entries of a result.
func traceActuals(r Result) []any {
	var out []any
	tr, _ := r.Raw["trace"].([]any)
	for _, t := range tr {
		if tm, ok := t.(map[string]any); ok {
			if tv, ok := tm["traceValue"].(map[string]any); ok {
				out = append(out, tv["actual"])
			}
		}
	}
	return out
}

func c02Run(c *Ctx, cs c02Case) {
	prof := c02Profile(cs.Paths, cs.Paren)
	toNS := func(x string) string { return x }
	fromNS := toNS
	if cs.NS != "" {
		toNS = func(x string) string { return strings.ReplaceAll(x, EX, cs.NS) }
		fromNS = func(x string) string { return strings.ReplaceAll(x, cs.NS, EX) }
		prof = toNS(prof)
	}
	q, cr := Compile(prof)
	if cr.Panic != nil || cr.Err != nil {
		// find the culprit path
		for _, p := range cs.Paths {
			if _, r1 := Compile(toNS(c02Profile([]*PExpr{p}, cs.Paren))); r1.Panic != nil || r1.Err != nil {
				c.Violate("C02 path rejected shape="+p.Skel()+": "+firstLine(r1.ErrString()), "path "+p.Render()+"\n"+r1.ErrString(), c02Case{Paths: []*PExpr{p}, Set: cs.Set, Paren: cs.Paren, NS: cs.NS})
			}
		}
		return
	}
	for _, doc := range c02Docs(cs.Set) {
		dataText := doc.data
		if cs.Split {
			dataText = doc.g.SplitJSONLD()
		}
		res := ValidateCompiled(q, toNS(dataText))
		c.Eval(1)
		if res.Panic != nil || res.Err != nil {
			c.Violate("C02 validation failed: "+firstLine(res.ErrString()), prof+"\n"+toNS(doc.data), nil)
			return
		}
		rep, err := ParseReport(res.Report)
		if err != nil {
			c.Violate("C02 report malformed", err.Error(), nil)
			return
		}
		// observed
		type obs struct {
			vals  map[string]bool
			count string
		}
		seen := map[string]*obs{} // key: pathIdx|focus
		get := func(k string) *obs {
			if o, ok := seen[k]; ok {
				return o
			}
			o := &obs{vals: map[string]bool{}}
			seen[k] = o
			return o
		}
		for _, r := range rep.Results {
			if len(r.Shape) < 2 {
				continue
			}
			k := r.Shape[1:] + "|" + fromNS(r.Focus)
			for _, a := range traceActuals(r) {
				if r.Shape[0] == 'a' {
					if s, ok := a.(string); ok {
						get(k).vals[fromNS(s)] = true
					} else {
						get(k).vals[fmt.Sprint(a)] = true
					}
				} else {
					switch n := a.(type) {
					case json.Number:
						get(k).count = n.String()
					default:
						get(k).count = fmt.Sprint(a)
					}
				}
			}
		}
		for i, p := range cs.Paths {
			nonEmpty := false
			for _, n := range doc.g.Nodes {
				den := p.DenoteFrom(doc.g, n.ID)
				expVals := map[string]bool{}
				for _, s := range ValueStrings(den) {
					expVals[s] = true
				}
				expCount := ""
				if len(den) > 0 {
					expCount = fmt.Sprint(len(den))
					nonEmpty = true
				}
				o := seen[fmt.Sprintf("%d|%s", i, n.ID)]
				if o == nil {
					o = &obs{vals: map[string]bool{}}
				}
				if !setEq(o.vals, expVals) || o.count != expCount {
					one := c02Case{Paths: []*PExpr{p}, Set: cs.Set, Paren: cs.Paren, NS: cs.NS, Split: cs.Split}
					sig := "C02 denotation mismatch"
					if cs.NS != "" {
						sig = "C02 denotation mismatch under another namespace shape"
					}
					if cs.Split {
						sig = "C02 denotation mismatch when nodes are described by two entries"
					}
					switch {
					case !setEq(o.vals, expVals):
						miss, extra := diffSets(expVals, o.vals)
						if len(miss) > 0 {
							sig += " (values missing)"
						}
						if len(extra) > 0 {
							sig += " (values extra)"
						}
					default:
						tagged := p.DenoteTagged(doc.g, map[string]PVal{"N:" + n.ID: {IsNode: true, ID: n.ID}})
						if o.count == fmt.Sprint(len(tagged)) {
							sig = "C02 count: a node reached both by a forward final step and by an inverse final step is counted twice"
						} else {
							sig += " (count only)"
						}
					}
					c.Violate(sig,
						fmt.Sprintf("path %q focus %s\nexpected values %s count %q\nobserved values %s count %q\ngraph: %s",
							p.Render(), n.ID, setStr(expVals), expCount, setStr(o.vals), o.count, doc.g.String()), one)
				}
			}
			if nonEmpty {
				c.Nontrivial(p.Render() + "|" + doc.g.Nodes[0].ID)
			}
		}
	}
	c.Outcome(fmt.Sprintf("set=%s leaves=%d ns=%s", cs.Set, cs.Paths[0].Leaves(), cs.NS))
	c.Sample(map[string]any{"path": cs.Paths[0].Render(), "set": cs.Set})
}
