//go:build verif

package verifx

import (
	"context"
	"fmt"
	"net"
	"sort"
	"strings"
	"sync/atomic"

	"github.com/aml-org/amf-custom-validator/pkg"
	"github.com/aml-org/amf-custom-validator/pkg/config"
	"github.com/open-policy-agent/opa/ast"
	"github.com/open-policy-agent/opa/types"
)

// C08 — profiles cannot reach the network or the host.

var c08Denied = map[string]bool{"http.send": true, "net.lookup_ip_addr": true, "opa.runtime": true, "rego.parse_module": true, "walk": true}

type c08Case struct {
	Builtin  string `json:"builtin"`
	Position string `json:"position"`
	Syntax   string `json:"syntax"`
	Debug    bool   `json:"debug,omitempty"` // compile through the entry points with debug=true
}

var c08Positions = []string{"top-rego", "top-regoModule", "top-code-message", "path-rego", "path-regoModule", "under-not", "and-operand", "or-operand", "if", "then", "else", "in-nested", "in-atLeast", "extensions-helper", "extensions-helper-under-nested"}

// c08Broken: the same call inside code that the engine would reject for a second, unrelated reason (a future keyword
// used as an identifier -> parse error, an unknown function, a type error, an unsafe variable, plain garbage). Such a
// profile must still be rejected, by whatever error, and nothing may be evaluated: a compile path that falls back or
// retries after one class of error must not lose the deny-list.
var c08Broken = []string{"broken:with-replace", "broken:with-replace-in-helper", "broken:kw-in", "broken:kw-every", "broken:kw-contains", "broken:kw-if", "broken:unknown-function", "broken:type-error", "broken:unsafe-var", "broken:garbage", "broken:import-future-again"}

var c08Syntaxes = []string{"statement", "unify", "assign", "array-compr", "set-compr", "object-compr", "every", "argument", "negated", "some-in"}

func litFor(t types.Type, depth int) string {
	switch x := t.(type) {
	case *types.NamedType:
		return litFor(x.Type, depth)
	case types.Null:
		return "null"
	case types.Boolean:
		return "true"
	case types.Number:
		return "1"
	case types.String:
		return `"a"`
	case types.Any:
		if len(x) == 0 {
			return `"a"`
		}
		// prefer a simple member
		for _, m := range x {
			switch m.(type) {
			case types.String, types.Number:
				return litFor(m, depth)
			}
		}
		return litFor(x[0], depth)
	case *types.Array:
		var parts []string
		for i := 0; i < x.Len(); i++ {
			parts = append(parts, litFor(x.Select(i), depth+1))
		}
		if d := x.Dynamic(); d != nil && len(parts) == 0 {
			parts = append(parts, litFor(d, depth+1))
		}
		return "[" + strings.Join(parts, ", ") + "]"
	case *types.Set:
		return "{" + litFor(types.Values(x), depth+1) + "}"
	case *types.Object:
		var parts []string
		for _, k := range x.Keys() {
			parts = append(parts, fmt.Sprintf("%q: %s", fmt.Sprint(k), litFor(x.Select(k), depth+1)))
		}
		if len(parts) == 0 {
			if dp := x.DynamicProperties(); dp != nil {
				parts = append(parts, litFor(dp.Key, depth+1)+": "+litFor(dp.Value, depth+1))
			}
		}
		return "{" + strings.Join(parts, ", ") + "}"
	case *types.Function:
		return `"a"`
	}
	return `"a"`
}

// special-case argument lists where a type-correct literal is still rejected at compile time
var c08Args = map[string]string{
	"http.send":          `{"method": "get", "url": "http://127.0.0.1:1/verif-c08"}`,
	"rego.parse_module":  `"m.rego", "package x"`,
	"walk":               `{"a": 1}`,
	"regex.match":        `"a", "a"`,
	"net.lookup_ip_addr": `"verif-c08.invalid"`,
}

func c08Call(b *ast.Builtin) (call string, hasResult bool) {
	args := ""
	if a, ok := c08Args[b.Name]; ok {
		args = a
	} else {
		var parts []string
		for _, t := range b.Decl.FuncArgs().Args {
			parts = append(parts, litFor(t, 0))
		}
		args = strings.Join(parts, ", ")
	}
	return fmt.Sprintf("%s(%s)", b.Name, args), b.Decl.Result() != nil
}

// c08Code returns the Rego lines that use the built-in in the given syntax.
func c08Code(b *ast.Builtin, syntax string) string {
	call, hasResult := c08Call(b)
	if strings.HasPrefix(syntax, "broken:") {
		kw := map[string]string{"broken:kw-in": "in", "broken:kw-every": "every", "broken:kw-contains": "contains", "broken:kw-if": "if"}[syntax]
		if kw != "" {
			if b.Relation {
				return fmt.Sprintf("%s(%s, [%s, c08v])", b.Name, c08Args[b.Name], kw)
			}
			if hasResult {
				return kw + " = " + call
			}
			return kw + " = 1\n" + call
		}
		if syntax == "broken:with-replace" || syntax == "broken:with-replace-in-helper" {
			// the denied built-in never appears as a call: it is named as the replacement of a harmless built-in of the same
			// arity in a `with` modifier (the engine rejects this through the same deny-list: "target must not be unsafe")
			harmless := map[int]string{0: "time.now_ns()", 1: "count(\"x\")", 2: "trim(\"a.rego\", \"package x\")", 3: "substring(\"abc\", 0, 1)"}
			target := map[int]string{0: "time.now_ns", 1: "count", 2: "trim", 3: "substring"}
			n := len(b.Decl.FuncArgs().Args)
			h, ok := harmless[n]
			if !ok {
				h, n = harmless[1], 1
			}
			if syntax == "broken:with-replace" {
				return fmt.Sprintf("c08x := %s with %s as %s", h, target[n], b.Name)
			}
			return fmt.Sprintf("c08x := [c08y | c08y := %s with %s as %s]", h, target[n], b.Name)
		}
		stmt := c08Code(b, "unify")
		switch syntax {
		case "broken:unknown-function":
			return stmt + "\nc08_no_such_function(1)"
		case "broken:type-error":
			return stmt + "\ncount(1) == 2"
		case "broken:unsafe-var":
			return stmt + "\nc08_unbound > 1"
		case "broken:garbage":
			return stmt + "\n)( ]["
		case "broken:import-future-again":
			return stmt + "\nimport future.keywords.in"
		}
	}
	if b.Relation {
		// relation form: walk(x, [path, value])
		args := c08Args[b.Name]
		switch syntax {
		case "statement", "unify", "assign":
			return fmt.Sprintf("%s(%s, [c08p, c08v])", b.Name, args)
		case "array-compr":
			return fmt.Sprintf("c08x := [c08v | %s(%s, [c08p, c08v])]", b.Name, args)
		case "set-compr":
			return fmt.Sprintf("c08x := {c08v | %s(%s, [c08p, c08v])}", b.Name, args)
		case "object-compr":
			return fmt.Sprintf("c08x := {c08p: c08v | %s(%s, [c08p, c08v])}", b.Name, args)
		case "every":
			return fmt.Sprintf("every c08e in [1] { c08e == 1; %s(%s, [c08p, c08v]) }", b.Name, args)
		case "argument":
			return fmt.Sprintf("count([c08v | %s(%s, [c08p, c08v])]) >= 0", b.Name, args)
		case "negated":
			return fmt.Sprintf("not %s(%s, [[\"zz\"], 1])", b.Name, args)
		case "some-in":
			return fmt.Sprintf("some c08e in [c08v | %s(%s, [c08p, c08v])]", b.Name, args)
		}
	}
	if !hasResult {
		return call
	}
	switch syntax {
	case "statement":
		return call
	case "unify":
		return "c08x = " + call
	case "assign":
		return "c08x := " + call
	case "array-compr":
		return "c08x := [c08y | c08y := " + call + "]"
	case "set-compr":
		return "c08x := {c08y | c08y := " + call + "}"
	case "object-compr":
		return "c08x := {\"k\": c08y | c08y := " + call + "}"
	case "every":
		return "every c08e in [1] { c08e == 1; count([" + call + "]) >= 0 }"
	case "argument":
		return "count([" + call + "]) >= 0"
	case "negated":
		return "not count([" + call + "]) == 99"
	case "some-in":
		return "some c08e in [" + call + "]"
	}
	return call
}

func c08Profile(code, position string) string {
	body := code + "\n$result = true\n"
	pre := M("ex", EX)
	top := M("profile", "c08", "prefixes", pre)
	regoV := func(b string) *YMap { return M("rego", b) }
	atom := M("propertyConstraints", M("ex.p1", M("minCount", 1)))
	var v *YMap
	switch position {
	case "top-rego":
		v = regoV(body)
	case "top-regoModule":
		v = M("regoModule", body)
	case "top-code-message":
		v = M("rego", M("code", body, "message", "custom"))
	case "path-rego":
		v = M("propertyConstraints", M("ex.p1", M("rego", body)))
	case "path-regoModule":
		v = M("propertyConstraints", M("ex.p1", M("regoModule", body)))
	case "under-not":
		v = M("not", regoV(body))
	case "and-operand":
		v = M("and", []any{atom, regoV(body)})
	case "or-operand":
		v = M("or", []any{atom, regoV(body)})
	case "if":
		v = M("if", regoV(body), "then", atom)
	case "then":
		v = M("if", atom, "then", regoV(body))
	case "else":
		v = M("if", atom, "then", atom, "else", regoV(body))
	case "in-nested":
		v = M("propertyConstraints", M("ex.c", M("nested", regoV(body))))
	case "in-atLeast":
		v = M("propertyConstraints", M("ex.c", M("atLeast", M("count", 1, "validation", M("propertyConstraints", M("ex.p4", M("rego", body)))))))
	case "extensions-helper", "extensions-helper-under-nested":
		top.Set("rego_extensions", "c08_helper(c08arg) = true {\n  "+strings.ReplaceAll(code, "\n", "\n  ")+"\n}\n")
		call := "$result = c08_helper($node)\n"
		if position == "extensions-helper" {
			v = regoV(call)
		} else {
			v = M("propertyConstraints", M("ex.c", M("nested", M("not", regoV(call)))))
		}
	default:
		panic("bad position " + position)
	}
	val := M("message", "m", "targetClass", "ex.T")
	for i, k := range v.Keys {
		val.Set(k, v.Vals[i])
	}
	top.Set("violation", strs("v"))
	top.Set("validations", M("v", val))
	return EmitYAML(top)
}

func init() {
	Register(Meta{
		ID: "C08", Level: "exploration",
		Rule:        "B x P x S: B = every built-in registered in the linked engine (ast.Builtins of the OPA version the repository links, so a dependency bump changes B); P = 15 embedding positions of the profile language (top-level rego / regoModule / code+message, under a path as rego / regoModule, under not, and/or operand, if/then/else, inside nested, inside atLeast, a helper in rego_extensions called from a validation, also under nested+not); S = 10 call syntaxes (statement, unification, assignment, array/set/object comprehension, every, argument of another call, negated, some-in; relation form for walk) + 11 further forms for the denied built-ins that must be rejected for whatever reason with nothing evaluated (the built-in named only as the replacement in a `with` modifier, directly and inside a comprehension; the call next to a future keyword used as an identifier, an unknown function, a type error, an unsafe variable, garbage, a repeated import: rejected for whatever reason, nothing evaluated). Arguments are synthesised from the declared type. Denied set F = {http.send, net.lookup_ip_addr, opa.runtime, rego.parse_module, walk}: every (p,s) must be rejected by CompileProfile, by Validate and by ValidateWithConfiguration under 3 report configurations (zero value, no dateCreated, custom schema IRIs) x 2 clocks, with zero resolver/dial attempts recorded by the instrumented net.DefaultResolver and loopback listener. All other built-ins are vacuity controls (the same templates must compile). Non-trivial = (builtin, position, syntax) for a denied built-in; distinct by profile text.",
		Assumptions: []string{"only the five built-ins the property names are required to be denied"},
	}, c08Gen, c08Run)
}

func c08Gen(tier string, emit func(c08Case)) {
	names := make([]string, 0, len(ast.Builtins))
	for _, b := range ast.Builtins {
		names = append(names, b.Name)
	}
	sort.Strings(names)
	for _, n := range names {
		if c08Denied[n] {
			for _, p := range c08Positions {
				for _, s := range c08Syntaxes {
					emit(c08Case{n, p, s, false})
					emit(c08Case{n, p, s, true})
				}
				for _, s := range c08Broken {
					emit(c08Case{n, p, s, false})
				}
			}
			continue
		}
		if tier == "thorough" {
			for _, p := range c08Positions {
				for _, s := range c08Syntaxes {
					emit(c08Case{n, p, s, false})
				}
			}
		} else {
			// controls: each built-in once, rotating through positions and syntaxes
			h := int(h64(n))
			if h < 0 {
				h = -h
			}
			emit(c08Case{n, c08Positions[h%len(c08Positions)], c08Syntaxes[(h/7)%len(c08Syntaxes)], false})
			emit(c08Case{n, "top-rego", "assign", h%2 == 0})
		}
	}
}

var c08NetAttempts int64
var c08NetInstalled bool
var c08Listener net.Listener

func c08InstallNet() {
	if c08NetInstalled {
		return
	}
	c08NetInstalled = true
	net.DefaultResolver = &net.Resolver{
		PreferGo: true,
		Dial: func(ctx context.Context, network, address string) (net.Conn, error) {
			atomic.AddInt64(&c08NetAttempts, 1)
			return nil, fmt.Errorf("verif: resolver dial refused")
		},
	}
	l, err := net.Listen("tcp", "127.0.0.1:0")
	if err == nil {
		c08Listener = l
		c08Args["http.send"] = fmt.Sprintf(`{"method": "get", "url": "http://%s/verif-c08", "timeout": "1s"}`, l.Addr().String())
		go func() {
			for {
				conn, err := l.Accept()
				if err != nil {
					return
				}
				atomic.AddInt64(&c08NetAttempts, 1)
				conn.Close()
			}
		}()
	}
}

func c08Builtin(name string) *ast.Builtin {
	for _, b := range ast.Builtins {
		if b.Name == name {
			return b
		}
	}
	return nil
}

var c08Data string

func c08Run(c *Ctx, cs c08Case) {
	c08InstallNet()
	if c08Data == "" {
		g := &Graph{}
		g.Add(nid(0), EX+"T").P(EX+"p1", "v").P(EX+"c", Ref(EX+"c0"))
		g.Add(EX+"c0", EX+"C").P(EX+"p4", "x")
		c08Data = g.FlatJSONLD()
	}
	b := c08Builtin(cs.Builtin)
	if b == nil {
		panic("harness: built-in not registered: " + cs.Builtin)
	}
	syntax := cs.Syntax
	if strings.HasPrefix(cs.Position, "extensions-helper") && (syntax == "every" || syntax == "some-in") {
		// rego_extensions precede the preamble's `import future.keywords`: these two syntaxes do not exist there
		syntax = "argument"
	}
	code := c08Code(b, syntax)
	prof := c08Profile(code, cs.Position)
	before := atomic.LoadInt64(&c08NetAttempts)
	q, cr := CompileDebug(prof, cs.Debug)
	c.Eval(1)
	if cr.Panic != nil {
		c.Violate("C08 panic compiling embedded rego at "+cr.Panic.Sig(), prof+"\n"+cr.Panic.Value, nil)
		return
	}
	if c08Denied[cs.Builtin] {
		c.Nontrivial(prof)
		if q != nil && cr.Err == nil {
			// accepted: evaluate once so that the attempt is part of the record
			r := ValidateCompiled(q, c08Data)
			after := atomic.LoadInt64(&c08NetAttempts)
			dbg := ""
			if cs.Debug {
				dbg = " (debug=true)"
			}
			c.Violate("C08 denied built-in "+cs.Builtin+" accepted"+dbg,
				fmt.Sprintf("position=%s syntax=%s\ncode: %s\nevaluation: err=%v report=%d bytes; network attempts recorded during this case: %d\nprofile:\n%s", cs.Position, cs.Syntax, code, r.Err, len(r.Report), after-before, prof), nil)
			c.Outcome("denied built-in ACCEPTED")
			return
		}
		if !strings.HasPrefix(cs.Syntax, "broken:") && !strings.Contains(cr.Err.Error(), cs.Builtin) {
			// rejected, but is it because of the deny-list? (a template that is invalid for another reason proves nothing)
			c.Violate("C08 denied built-in rejected for another reason (template not probing the deny-list)", fmt.Sprintf("builtin=%s position=%s syntax=%s\nerror: %v\ncode: %s", cs.Builtin, cs.Position, cs.Syntax, cr.Err, code), nil)
		}
		// Validate with the text must fail too, and nothing may have been attempted
		r := protect(func() (string, error) {
			return pkg.ValidateWithConfiguration(prof, c08Data, cs.Debug, nil, Epoch2000, DefaultReportConf())
		})
		c.Eval(1)
		if r.Err == nil {
			c.Violate("C08 Validate accepts a profile that CompileProfile rejects", prof, nil)
		}
		// ... under every report configuration and clock (the configuration must not reach the compiler's options)
		noDate := DefaultReportConf()
		noDate.IncludeReportCreationTime = false
		for ci, rc := range []config.ReportConfiguration{{}, noDate, {IncludeReportCreationTime: true, ReportSchemaIri: "http://a.ml/custom/report.yaml", LexicalSchemaIri: "http://a.ml/custom/lexical.yaml"}} {
			for _, clk := range []config.ValidationConfiguration{Epoch2000, config.DefaultValidationConfiguration{}} {
				rr := protect(func() (string, error) {
					return pkg.ValidateWithConfiguration(prof, c08Data, cs.Debug, nil, clk, rc)
				})
				c.Eval(1)
				if rr.Err == nil && rr.Panic == nil {
					c.Violate("C08 denied built-in "+cs.Builtin+" accepted by ValidateWithConfiguration under a non-default configuration", fmt.Sprintf("report configuration #%d %+v\nposition=%s syntax=%s\nprofile:\n%s", ci, rc, cs.Position, cs.Syntax, prof), nil)
				}
			}
		}
		if after := atomic.LoadInt64(&c08NetAttempts); after != before {
			c.Violate("C08 network attempt although the profile was rejected", fmt.Sprintf("%d attempt(s)\n%s", after-before, prof), nil)
		}
		c.Outcome("denied built-in rejected")
		return
	}
	// vacuity control
	if q != nil && cr.Err == nil {
		c.Count("controls_compiled", 1)
		c.Outcome("control compiles")
		// run it through the text entry point as well: the next (denied) twin of this profile differs only in its code
		protect(func() (string, error) {
			return pkg.ValidateWithConfiguration(prof, c08Data, cs.Debug, nil, Epoch2000, DefaultReportConf())
		})
		c.Eval(1)
	} else {
		c.Count("controls_rejected", 1)
		c.Outcome("control rejected: " + cs.Syntax)
		if len(c.notes) < 30 {
			c.Note(fmt.Sprintf("control %s/%s/%s rejected: %s", cs.Builtin, cs.Position, cs.Syntax, firstLine(strings.ReplaceAll(cr.Err.Error(), "\n", " "))))
		}
	}
	c.Sample(map[string]any{"builtin": cs.Builtin, "position": cs.Position, "syntax": cs.Syntax, "code": code})
}
