//go:build verif

package verifx

import (
	"fmt"
	"os"
	"os/exec"
	"strings"
	"time"

	"github.com/aml-org/amf-custom-validator/pkg/config"
	"github.com/aml-org/amf-custom-validator/verifrt"
)

// C06 — same inputs, byte-identical report and byte-identical generated code.
// The nondeterminism inside the repository (map iteration order) is put behind
// a seam by the instrumenter and enumerated; goroutine interleaving is covered
// by C10's scheduler on the same oracle (result equals the serial result).

type c06Case struct {
	Profile int    `json:"profile"`
	Pass    string `json:"pass"` // "clocks": configured clock values x a moving wall clock | "keys": all orders of the YAML key maps (unbounded) | "others": every other map-range site at bound 1 | "all2": every site, bound 2
	Replay  []int  `json:"replay,omitempty"`
	Plain   bool   `json:"plain,omitempty"` // uninstrumented repetition pass
	Part    int    `json:"part,omitempty"`
	Parts   int    `json:"parts,omitempty"`
}

func c06Quant(kind int, path string, inner *YMap) (string, *YMap) {
	switch kind % 3 {
	case 0:
		return path, M("nested", inner)
	case 1:
		return path, M("atLeast", M("count", 1, "validation", inner))
	default:
		return path, M("atMost", M("count", 1, "validation", inner))
	}
}

// c06Profiles: sibling quantified constraints under one propertyConstraints
// map (m = 2..4), nested to depth 2, under and/or, with 1..3 prefixes.
func c06Profiles() []string {
	var out []string
	leaf := func(i int) *YMap {
		return M("propertyConstraints", M(fmt.Sprintf("ex.p%d", 4+i%2), M("minCount", 1)))
	}
	prefixSets := []*YMap{
		M("ex", EX),
		M("ex", EX, "zz", "http://zz.org/"),
		M("zz", "http://zz.org/", "ex", EX, "aa", "http://aa.org/"),
	}
	mk := func(name string, pre *YMap, body *YMap) string {
		v := M("message", "m", "targetClass", "ex.T")
		for i, k := range body.Keys {
			v.Set(k, body.Vals[i])
		}
		return EmitYAML(M("profile", name, "prefixes", pre, "violation", strs("v"), "validations", M("v", v)))
	}
	for m := 2; m <= 4; m++ {
		pc := M()
		for i := 0; i < m; i++ {
			k, val := c06Quant(i, fmt.Sprintf("ex.c%d", i+1), leaf(i))
			pc.Set(k, val)
		}
		out = append(out, mk(fmt.Sprintf("siblings %d", m), prefixSets[(m-2)%3], M("propertyConstraints", pc)))
	}
	// a mapping in which one property key is written twice (yaml.v3 keeps both entries in the node tree)
	{
		pc := M()
		for i := 0; i < 3; i++ {
			k, val := c06Quant(i, fmt.Sprintf("ex.c%d", i+1), leaf(i))
			pc.Set(k, val)
		}
		k, val := c06Quant(1, "ex.c1", leaf(1))
		pc.Set(k, val)
		out = append(out, mk("repeated key", prefixSets[0], M("not", M("propertyConstraints", pc))))
	}
	// depth 2: each sibling's inner validation has two quantified siblings itself
	pc := M()
	for i := 0; i < 2; i++ {
		inner := M()
		for j := 0; j < 2; j++ {
			k, val := c06Quant(i+j, fmt.Sprintf("ex.c%d", j+1), leaf(j))
			inner.Set(k, val)
		}
		k, val := c06Quant(i, fmt.Sprintf("ex.c%d", i+1), M("propertyConstraints", inner))
		pc.Set(k, val)
	}
	out = append(out, mk("depth 2", prefixSets[1], M("propertyConstraints", pc)))
	// under or / and, mixed with plain constraints
	q := func(i int) *YMap {
		k, val := c06Quant(i, fmt.Sprintf("ex.c%d", i+1), leaf(i))
		return M("propertyConstraints", M(k, val, "ex.p1", M("minCount", 1)))
	}
	out = append(out, mk("under or", prefixSets[2], M("or", []any{q(0), q(1), M("not", q(2))})))
	out = append(out, mk("under and", prefixSets[0], M("and", []any{q(1), q(0), M("propertyConstraints", M("ex.c1", M("minCount", 1), "ex.c2", M("maxCount", 1), "ex.p1", M("in", strs("v", "w"))))})))
	// wide connectives: six alternatives / a negated conjunction of five, each operand drawing generated names
	// (a translator that handles the operands of a wide connective out of order, or concurrently, shows here)
	wide := func(n int) []any {
		var ops []any
		for i := 0; i < n; i++ {
			k, val := c06Quant(i, fmt.Sprintf("ex.c%d", i%4+1), leaf(i))
			ops = append(ops, M("propertyConstraints", M(k, val)))
		}
		return ops
	}
	out = append(out, mk("wide or", prefixSets[0], M("or", wide(6))))
	out = append(out, mk("not wide and", prefixSets[1], M("not", M("and", wide(5)))))
	return out
}

func c06Graph() *Graph {
	g := &Graph{}
	for kind := 0; kind < 4; kind++ {
		childKindProps(g.Add(fmt.Sprintf("%sk%d", EX, kind), EX+"C"), kind)
	}
	for kind := 0; kind < 4; kind++ {
		n := g.Add(fmt.Sprintf("%sm%d", EX, kind), EX+"C")
		childKindProps(n, 3-kind)
		n.P(EX+"c1", Ref(fmt.Sprintf("%sk%d", EX, kind)))
		n.P(EX+"c2", Ref(fmt.Sprintf("%sk%d", EX, (kind+1)%4)), Ref(fmt.Sprintf("%sk%d", EX, (kind+2)%4)))
	}
	for i := 0; i < 4; i++ {
		n := g.Add(nid(i), EX+"T")
		if i%2 == 1 {
			n.P(EX+"p1", "v")
		}
		for c := 1; c <= 4; c++ {
			a, b := (i+c)%4, (i+2*c+1)%4
			tgt := "k"
			if c <= 2 {
				tgt = "m"
			}
			n.P(fmt.Sprintf("%sc%d", EX, c), Ref(fmt.Sprintf("%s%s%d", EX, tgt, a)))
			if a != b && i != 2 {
				n.P(fmt.Sprintf("%sc%d", EX, c), Ref(fmt.Sprintf("%s%s%d", EX, tgt, b)))
			}
		}
	}
	return g
}

func init() {
	Register(Meta{
		ID: "C06", Level: "model_checking", LongCases: true,
		Rule:        "instrumented build: every `range` over a map in the repository is rewritten to iterate in the order dictated by the explorer (site list in the evidence). Profiles: m=2..4 sibling quantified constraints under one propertyConstraints map, the same nested to depth 2, under or/and/not mixed with plain constraints, with 1-3 prefixes, an `or` of six and a negated `and` of five quantified operands. `go` statements and sync.WaitGroup of the repository are hooked as well: goroutines it starts become scheduler threads whose order is one more deviation. For each profile: pass keys = every order of every YAML key map (all permutations for <=4 keys, unbounded composition); pass others = every other map-range site at deviation bound 1 (2n rotations/reversals for maps with >4 keys); thorough adds pass all2 = every site at bound 2 (all profiles but the two-level one). Oracle: all executions of Validate(profile, data, fixed clock) yield one report byte string and all executions of GenerateRego after a counter reset yield one code byte string. An uninstrumented pass repeats every profile 30x in one process (Go's own random map order) as a cross-check that the seam is complete. Pass gencode: for 3 profiles x 11 profile names (empty, 63/64/65/100/300 characters, non-ASCII, punctuation) the code generated by two fresh processes and by this process after a counter reset must be one byte string. Pass clocks: the repository's time.Now() is routed through a seam that jumps by an hour on every reading; for 9 configured clock values (ordinary, zero Time, Unix epoch in two locations, 1 ns after it, 1960, 9999, two non-UTC zones) x dateCreated on/off, three consecutive identical calls must give identical bytes. Pass history: for 13 profiles x 8 documents chosen to collide on cheap cache keys and shared tables (same profile name / different content, same node ids / different values, failing inputs, a prefix rebound between profiles, the name of a built-in prefix bound to another namespace, a prefix declared by one profile and used undeclared by another, two long profiles that differ late), every ordered pair of Validate calls is executed in one process and each result must equal the result the same call gave before (a call's bytes must not depend on the call made before it).",
		Assumptions: []string{"nondeterminism inside dependencies (OPA, json-gold, encoding/json) is not behind the seam; the uninstrumented repetition pass is the cross-check for it"},
	}, c06Gen, c06Run)
	Register(Meta{
		ID: "C06P", Level: "exploration",
		Rule: "uninstrumented repetition pass of C06 (internal)",
	}, func(tier string, emit func(c06Case)) {
		for p := range c06Profiles() {
			emit(c06Case{Profile: p, Plain: true})
		}
	}, c06Run)
}

// ---- history pass: the same (profile, data, configuration) gives the same bytes whatever was validated before in
// the process. Pairs are chosen to collide on every cheap cache key one could think of: same profile name with
// different content, same text length, same node ids with different values, same data for different profiles.

func c06HistInputs() (profiles []string, datas []string) {
	mkp := func(name, prop string, n int) string {
		return EmitYAML(M("profile", name, "prefixes", M("ex", EX), "violation", strs("v"),
			"validations", M("v", M("message", "m", "targetClass", "ex.T", "propertyConstraints", M(prop, M("minCount", n))))))
	}
	// the same compact IRI bound to different namespaces in different profiles (one of them the api-extension namespace)
	rebind := func(ns string) string {
		return EmitYAML(M("profile", "rebind", "prefixes", M("ex", EX, "ext", ns), "violation", strs("v"),
			"validations", M("v", M("message", "m", "targetClass", "ex.T", "propertyConstraints", M("ext.owner / ex.p1", M("minCount", 1))))))
	}
	// two long profiles (> 16 KiB) of equal length that differ only near the end (level lists written last)
	long := func(swap bool) string {
		vals := M()
		for i := 0; i < 120; i++ {
			vals.Set(fmt.Sprintf("rule-%03d", i), M("message", fmt.Sprintf("message number %03d with some padding text to make the profile long", i), "targetClass", "ex.T", "propertyConstraints", M(fmt.Sprintf("ex.p%d", i%3+1), M("minCount", 1))))
		}
		a, b := "rule-000", "rule-001"
		if swap {
			a, b = b, a
		}
		return EmitYAML(M("profile", "long", "prefixes", M("ex", EX), "validations", vals, "violation", strs(a), "warning", strs(b)))
	}
	// prefix tables: a profile that binds the NAME of a built-in prefix (core) to its own namespace, one that relies on
	// the built-in binding of that name, one that declares a fresh prefix, and one that uses that fresh prefix without
	// declaring it (always an error)
	pfx := func(name string, prefixes *YMap, prop string) string {
		return EmitYAML(M("profile", name, "prefixes", prefixes, "violation", strs("v"),
			"validations", M("v", M("message", "m", "targetClass", "ex.T", "propertyConstraints", M(prop, M("minCount", 1))))))
	}
	profiles = []string{mkp("same name", "ex.p1", 1), mkp("same name", "ex.p2", 1), mkp("same name", "ex.p1", 2), mkp("other", "ex.p1", 1), "profile: [broken\n",
		rebind("http://a.ml/vocabularies/api-extension#"), rebind("http://example.org/ext#"),
		pfx("shadow", M("ex", EX, "core", "http://example.org/acme#"), "core.name"), pfx("builtin", M("ex", EX), "core.name"),
		pfx("declares", M("ex", EX, "acme", "http://example.org/acme#"), "acme.name"), pfx("undeclared", M("ex", EX), "acme.name"),
		long(false), long(true)}
	mkd := func(v1, v2 string, two bool) string {
		g := &Graph{}
		n := g.Add(nid(0), EX+"T").P(EX+v1, "a")
		if two {
			n.P(EX+v1, "b")
		}
		g.Add(nid(1), EX+"T").P(EX+v2, "a")
		return g.FlatJSONLD()
	}
	owner := func() string {
		g := &Graph{}
		g.Add(nid(0), EX+"T").P("http://example.org/ext#owner", Ref(EX+"o")).P(EX+"p1", "a")
		g.Add(EX+"o", EX+"O").P(EX+"p1", "x")
		g.Add(nid(1), EX+"T").P(EX+"p2", "a")
		return g.FlatJSONLD()
	}
	names := func() string {
		g := &Graph{}
		g.Add(nid(0), EX+"T").P("http://example.org/acme#name", "acme name")
		g.Add(nid(1), EX+"T").P("http://a.ml/vocabularies/core#name", "core name")
		g.Add(nid(2), EX+"T").P(EX+"p1", "a")
		return g.FlatJSONLD()
	}
	datas = []string{mkd("p1", "p2", false), mkd("p2", "p1", false), mkd("p1", "p1", true), mkd("p3", "p3", false), `{"@graph":[`, `{}`, owner(), names()}
	return
}

// ---- pass gencode: generated code is the same in every fresh process ---------------

// c06GenNames: profile names whose treatment (sanitising, truncating, hashing) ends up in the generated package name.
func c06GenNames() []string {
	return []string{"", "short", strings.Repeat("n", 63), strings.Repeat("n", 64), strings.Repeat("n", 65), strings.Repeat("long name ", 10), strings.Repeat("x", 300),
		"Perfil de validación №٣", "規則 v2", "a.b/c:d-e_f", "UPPER lower 123"}
}

func c06GenProfile(p, n int) string {
	prof := c06Profiles()[p]
	if name := c06GenNames()[n]; name != "" {
		i := strings.Index(prof, "\n")
		prof = "profile: " + yamlQuote(name) + prof[i:]
	}
	return prof
}

// C06Gen: the generated code for (profile p, name n) as a process computes it first thing (`vworker c06gen p n`).
func C06Gen(p, n int) string {
	code, err, pn := GenerateRego(c06GenProfile(p, n))
	if pn != nil {
		return "PANIC " + pn.Sig()
	}
	if err != nil {
		return "ERR " + firstLine(err.Error())
	}
	return code
}

func c06RunGenCode(c *Ctx, cs c06Case) {
	exe, err := os.Executable()
	if err != nil {
		panic("harness: " + err.Error())
	}
	for n := range c06GenNames() {
		var outs []string
		for k := 0; k < 2; k++ {
			out, err := exec.Command(exe, "c06gen", fmt.Sprint(cs.Profile), fmt.Sprint(n)).Output()
			if err != nil {
				panic("harness: fresh-process generation failed: " + err.Error())
			}
			outs = append(outs, string(out))
			c.Eval(1)
		}
		GenReset()
		here := C06Gen(cs.Profile, n)
		if outs[0] != outs[1] {
			c.Violate("C06 two fresh processes generate different code for the same profile", fmt.Sprintf("profile %d with name %q\n%s", cs.Profile, c06GenNames()[n], firstDiff(outs[0], outs[1])), nil)
		} else if here != outs[0] {
			c.Violate("C06 generated code differs between a fresh process and a process that has compiled other profiles (after a counter reset)", fmt.Sprintf("profile %d with name %q\n%s", cs.Profile, c06GenNames()[n], firstDiff(outs[0], here)), nil)
		}
		if strings.HasPrefix(outs[0], "ERR") || strings.HasPrefix(outs[0], "PANIC") {
			c.Violate("C06 profile with this name is not translated: "+firstLine(outs[0]), c06GenProfile(cs.Profile, n), nil)
		}
		c.Outcome("gencode agrees")
	}
	c.Count("states", int64(len(c06GenNames())))
	c.Count("transitions", int64(3*len(c06GenNames())))
	c.Count("traces_validated_against_impl", int64(3*len(c06GenNames())))
	c.Nontrivial(fmt.Sprintf("%d/gencode", cs.Profile))
}

// C06Once runs one call of the history pass (used through `vworker c06once p d` to obtain the result a FRESH process gives).
func C06Once(p, d int) string {
	profiles, datas := c06HistInputs()
	r := Validate(profiles[p], datas[d])
	if r.Panic != nil {
		return "PANIC " + r.Panic.Sig()
	}
	if r.Err != nil {
		return "ERR"
	}
	return r.Report
}

var c06FreshCache = map[[2]int]string{}

func c06Fresh(p, d int) string {
	k := [2]int{p, d}
	if v, ok := c06FreshCache[k]; ok {
		return v
	}
	exe, err := os.Executable()
	if err != nil {
		panic("harness: " + err.Error())
	}
	out, err := exec.Command(exe, "c06once", fmt.Sprint(p), fmt.Sprint(d)).Output()
	if err != nil {
		panic("harness: fresh-process reference failed: " + err.Error())
	}
	c06FreshCache[k] = string(out)
	return string(out)
}

func c06RunHistory(c *Ctx, cs c06Case) {
	profiles, datas := c06HistInputs()
	type call struct{ p, d int }
	var calls []call
	for p := range profiles {
		for d := range datas {
			if p >= len(profiles)-2 && d != 0 {
				continue // the two long profiles (slow to compile) are paired with the first document only
			}
			calls = append(calls, call{p, d})
		}
	}
	run := func(k call) string {
		r := Validate(profiles[k.p], datas[k.d])
		c.Eval(1)
		if r.Panic != nil {
			return "PANIC " + r.Panic.Sig()
		}
		if r.Err != nil {
			return "ERR"
		}
		return r.Report
	}
	// reference: each call as the first thing after a (logically) fresh start is not available in-process; the
	// differential oracle is: the result of a call must not depend on which call preceded it.
	// reference = what a FRESH process returns for the call (a process-wide memo that is filled once and never
	// changes would make every in-process reference consistently wrong)
	ref := make([]string, len(calls))
	for i, k := range calls {
		ref[i] = c06Fresh(k.p, k.d)
	}
	first := cs.Part
	for second := range calls {
		a := run(calls[first])
		b := run(calls[second])
		if a != ref[first] {
			c.Violate("C06 the same call gives different bytes later in the process", fmt.Sprintf("call (profile %d, data %d) repeated\n%s", calls[first].p, calls[first].d, firstDiff(ref[first], a)), nil)
		}
		if b != ref[second] {
			c.Violate("C06 a call's result depends on the call made before it", fmt.Sprintf("call (profile %d, data %d) after (profile %d, data %d)\n%s\nprofile:\n%s\ndata: %s", calls[second].p, calls[second].d, calls[first].p, calls[first].d, firstDiff(ref[second], b), profiles[calls[second].p], datas[calls[second].d]), nil)
		}
		c.Count("states", 1)
		c.Count("transitions", 2)
		c.Count("traces_validated_against_impl", 2)
	}
	c.Outcome("history pass")
	c.Nontrivial(fmt.Sprintf("history/%d", first))
	c.Sample(map[string]any{"pass": "history", "first_call": fmt.Sprintf("profile %d data %d", calls[first].p, calls[first].d), "pairs": len(calls)})
}

func c06Gen(tier string, emit func(c06Case)) {
	{
		ps, ds := c06HistInputs()
		for k := 0; k < (len(ps)-2)*len(ds)+2; k++ {
			emit(c06Case{Pass: "history", Part: k})
		}
	}
	for p := range c06Profiles() {
		if p < 2 {
			emit(c06Case{Profile: p, Pass: "clocks"})
		}
		if p == 0 || p == 5 || p == 7 {
			emit(c06Case{Profile: p, Pass: "gencode"})
		}
		emit(c06Case{Profile: p, Pass: "keys", Parts: 1})
		for k := 0; k < 4; k++ {
			emit(c06Case{Profile: p, Pass: "others", Part: k, Parts: 4})
		}
		if tier == "thorough" && p != 4 && p < 7 {
			// (profile 4, two levels of quantified siblings, has too many choice points for bound 2 in the budget:
			// it is covered by the unbounded key pass and bound 1 elsewhere)
			for k := 0; k < 16; k++ {
				emit(c06Case{Profile: p, Pass: "all2", Part: k, Parts: 16})
			}
		}
	}
}

var c06DataText string

func c06Run(c *Ctx, cs c06Case) {
	if cs.Pass == "gencode" {
		c06RunGenCode(c, cs)
		return
	}
	if cs.Pass == "history" {
		c06RunHistory(c, cs)
		return
	}
	if c06DataText == "" {
		c06DataText = c06Graph().FlatJSONLD()
	}
	prof := c06Profiles()[cs.Profile]
	body := func() CallRes {
		r := Validate(prof, c06DataText)
		if r.Panic != nil || r.Err != nil {
			return r
		}
		GenReset()
		code, err, pn := GenerateRego(prof)
		if pn != nil {
			return CallRes{Panic: pn}
		}
		if err != nil {
			return CallRes{Err: err}
		}
		// one string: report + generated code
		return CallRes{Report: r.Report + "\x00" + code}
	}
	ref := body()
	if ref.Panic != nil || ref.Err != nil {
		c.Violate("C06 profile rejected: "+firstLine(ref.ErrString()), prof, nil)
		return
	}
	if !strings.Contains(ref.Report, "subResult") {
		panic("harness: C06 profile produces no nested results; byte comparison would be weak\n" + prof)
	}
	if cs.Pass == "clocks" {
		// the configured clock is part of the input; the wall clock is not. The instrumented build routes the
		// repository's time.Now() through verifrt.Now, which here jumps by an hour on every reading, so a report that
		// takes anything from the wall clock differs between two consecutive identical calls.
		before := verifrt.NowReadings()
		config.DefaultValidationConfiguration{}.ReportCreationTime()
		if verifrt.NowReadings() == before {
			panic("harness: the wall clock seam is not wired (C06 pass clocks needs the instrumented build)")
		}
		verifrt.FakeNow = true
		defer func() { verifrt.FakeNow = false }()
		clocks := []struct {
			name string
			t    time.Time
		}{
			{"2000-11-28 UTC", Epoch2000.T}, {"zero Time", time.Time{}}, {"Unix(0,0)", time.Unix(0, 0)}, {"Unix(0,0) UTC", time.Unix(0, 0).UTC()},
			{"Unix(0,1)", time.Unix(0, 1).UTC()}, {"1960", time.Date(1960, 2, 29, 1, 2, 3, 0, time.UTC)}, {"9999", time.Date(9999, 12, 31, 23, 59, 59, 999999999, time.UTC)},
			{"zone -07:30", time.Date(2021, 3, 4, 5, 6, 7, 0, time.FixedZone("X", -7*3600-30*60))}, {"zone +14:00 with nanoseconds", time.Date(2024, 2, 29, 23, 59, 59, 123456789, time.FixedZone("Y", 14*3600))},
		}
		for _, inc := range []bool{true, false} {
			rc := DefaultReportConf()
			rc.IncludeReportCreationTime = inc
			for _, cl := range clocks {
				var outs []string
				for k := 0; k < 3; k++ {
					r := ValidateConf(prof, c06DataText, FixedClock{cl.t}, rc, nil)
					c.Eval(1)
					if r.Panic != nil || r.Err != nil {
						c.Violate("C06 validation fails under a configured clock: "+firstLine(r.ErrString()), fmt.Sprintf("clock %s\n%s", cl.name, prof), nil)
						break
					}
					outs = append(outs, r.Report)
				}
				for k := 1; k < len(outs); k++ {
					if outs[k] != outs[0] {
						c.Violate("C06 the same call under the same configured clock gives different bytes when the wall clock moves", fmt.Sprintf("profile %d, configured clock %s (%v), dateCreated included=%v, call 1 vs call %d\n%s", cs.Profile, cl.name, cl.t, inc, k+1, firstDiff(outs[0], outs[k])), nil)
						break
					}
				}
				c.Outcome(fmt.Sprintf("clock %s inc=%v", cl.name, inc))
			}
		}
		c.Nontrivial(fmt.Sprintf("%d/clocks", cs.Profile))
		c.Sample(map[string]any{"profile": cs.Profile, "pass": "clocks", "clocks": len(clocks), "wall_clock_readings": verifrt.NowReadings() - before})
		return
	}
	if cs.Plain {
		for i := 0; i < 30; i++ {
			r := body()
			c.Eval(1)
			if r.Report != ref.Report {
				parts, rparts := strings.SplitN(r.Report, "\x00", 2), strings.SplitN(ref.Report, "\x00", 2)
				what := "report"
				if len(parts) == 2 && len(rparts) == 2 && parts[0] == rparts[0] {
					what = "generated code"
				}
				c.Violate("C06 repeated runs give different "+what+" bytes (uninstrumented, Go map order) [nondet-ok]", fmt.Sprintf("profile %d run %d\n%s\nprofile:\n%s", cs.Profile, i, firstDiff(ref.Report, r.Report), prof), nil)
				break
			}
		}
		c.Nontrivial(prof)
		c.Nontrivial(prof + "x")
		c.Sample(map[string]any{"profile": prof, "runs": 30})
		return
	}
	mk := func(results []CallRes) []func() {
		return []func(){func() { results[0] = body() }}
	}
	outputs := map[uint64]bool{}
	check := func(x Exec) {
		c.Eval(1)
		r := x.Results[0]
		rc := c06Case{Profile: cs.Profile, Pass: cs.Pass, Replay: x.Choices}
		if r.Panic != nil || r.Err != nil {
			c.Violate("C06 a map order makes the call fail: "+firstLine(r.ErrString()), schedString(x)+"\n"+prof, rc)
			return
		}
		outputs[h64(r.Report)] = true
		if r.Report != ref.Report {
			parts, rparts := strings.SplitN(r.Report, "\x00", 2), strings.SplitN(ref.Report, "\x00", 2)
			what := "report"
			if parts[0] == rparts[0] {
				what = "generated code"
			}
			site := ""
			for _, p := range x.Points {
				if p.Choice != 0 {
					site = p.Site
					break
				}
			}
			c.Violate("C06 "+what+" bytes depend on the order chosen at "+site, fmt.Sprintf("profile %d, order deviations %s\n%s\nprofile:\n%s", cs.Profile, schedString(x), firstDiff(ref.Report, r.Report), prof), rc)
		}
		c.Max("map_choice_points_in_one_execution", int64(len(x.Points)))
	}
	isKeys := func(site string, n int) bool { return strings.Contains(site, "internal/parser/yaml/") }
	var siteOK func(string, int) bool
	bound := 1
	switch cs.Pass {
	case "keys":
		siteOK, bound = isKeys, 1000
	case "others":
		siteOK = func(s string, n int) bool { return !isKeys(s, n) }
	case "all2":
		siteOK, bound = nil, 2
	}
	if cs.Replay != nil {
		x := runExecF(mk, 1, cs.Replay, true, siteOK)
		if x.Diverged != "" {
			panic("harness: replay diverged: " + x.Diverged)
		}
		check(x)
		return
	}
	parts := cs.Parts
	if parts < 1 {
		parts = 1
	}
	// goroutines the translator may start are scheduler threads: their order is explored like a map order (one
	// deviation each) in the passes others/all2, and left at the default in the key pass
	e := &Explorer{Mk: mk, N: 1, MapChoices: true, SiteOK: siteOK, Bound: bound, Part: cs.Part, Parts: parts, Check: check, Stop: c.Expired, NoSched: cs.Pass == "keys", SchedCosts: true}
	e.Explore()
	if e.Capped {
		c.CapHit(fmt.Sprintf("C06 profile %d pass %s stopped by the soft deadline", cs.Profile, cs.Pass))
	}
	c.Count("states", e.Executions)
	c.Count("transitions", e.Executions*int64(e.MaxPoints))
	c.Count("traces_validated_against_impl", e.Executions)
	c.Outcome(fmt.Sprintf("profile %d pass %s distinct outputs=%d", cs.Profile, cs.Pass, len(outputs)))
	c.Nontrivial(fmt.Sprintf("%d/%s", cs.Profile, cs.Pass))
	c.Sample(map[string]any{"profile": prof, "pass": cs.Pass, "executions": e.Executions, "choice_points": e.MaxPoints, "distinct_outputs": len(outputs)})
}
