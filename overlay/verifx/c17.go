//go:build verif

package verifx

import (
	"fmt"
	"os"
	"regexp"
	"strings"

	"github.com/aml-org/amf-custom-validator/pkg/events"
	"github.com/open-policy-agent/opa/rego"
)

// C17 — entry points return a report or an error for any input; they never panic.

type c17Case struct {
	Kind    string   `json:"kind"` // profile | data | pair | rawprofile | rawdata
	Seed    string   `json:"seed"`
	Profile string   `json:"profile,omitempty"`
	Data    string   `json:"data,omitempty"`
	Desc    string   `json:"desc,omitempty"`
	Raw     []string `json:"raw,omitempty"`
	Full    bool     `json:"full,omitempty"` // also run the text entry points for data mutations
}

func init() {
	Register(Meta{
		ID: "C17", Level: "exploration", HangIsViolation: true,
		Rule:        "deviation-bounded: 6 seed (profile, data) pairs; bound 1 = every single structured mutation of the profile YAML tree (delete/rename/duplicate each key, delete each list item, replace each node by each of 14 wrong-kind values, keys turned into bad paths/unknown prefixes, 12 whole-document specials) and of the data JSON tree (14 replacements at every JSON pointer, delete/rename each key, each key turned into each JSON-LD keyword, delete each item, 24 whole-document specials); bound 2 (thorough) = every pair (profile mutation i, data mutation j) for seed `plain` (about 580 x 559) and, for seed `lexical` (about 550 x 3426 = 1.9 M pairs, beyond the budget), the sub-lattice i+j = 0 mod 8 (every profile mutation meets an eighth of the data mutations and vice versa; stated as a cap, not as full bound-2 coverage); raw = every string of length <=2 (quick) / <=3 (thorough) over the YAML and JSON structural alphabets as profile and as data. Entry points Validate, ValidateWithConfiguration, CompileProfile, ValidateCompiled, ValidateCompiledWithConfiguration, with and without an event channel. Oracle: no panic, returns within the watchdog, exactly one of report/error; valid JSON-LD with no nodes (decided by calling json-gold directly) yields conforms:true. Non-trivial = mutant that is still well-formed YAML/JSON (reaches past the text parser); distinct by text.",
		Assumptions: []string{"'never blocks' is decided by a 90 s per-case watchdog (typical case < 50 ms) plus a goroutine dump: the call counts as blocked only if nothing is running and a goroutine has been parked for over a minute inside the repository's packages; it is re-run (alone, then with the cases of its shard that preceded it) before being reported, and a shard stops after 2 blocked calls"},
	}, c17Gen, c17Run)
}

// c17BigLex: a document with more than 32 source maps (size thresholds in the lexical indexing); the source-map
// and lexical-entry nodes come first in @graph so that mutations can be restricted to them.
func c17BigLex() (string, int) {
	g := &Graph{}
	const n = 36
	for i := 0; i < n; i++ {
		id := fmt.Sprintf("%st%d", EX, i)
		sm := g.Add(id+"/source-map", smNS+"SourceMap")
		e := g.Add(id + "/source-map/lexical/element_0")
		e.P(smNS+"element", id).P(smNS+"value", fmt.Sprintf("[(%d,1)-(%d,9)]", i+1, i+2))
		sm.P(smNS+"lexical", Ref(e.ID))
	}
	for i := 0; i < n; i++ {
		node := g.Add(fmt.Sprintf("%st%d", EX, i), EX+"T").P(smNS+"sources", Ref(fmt.Sprintf("%st%d/source-map", EX, i)))
		if i%3 == 0 {
			node.P(EX+"p1", "v")
		}
	}
	g.Add(EX+"BaseUnitSourceInformation", docNS+"BaseUnitSourceInformation").P(docNS+"rootLocation", "file:///root.raml")
	return g.FlatJSONLD(), 2 * n
}

var c17GraphIdx = regexp.MustCompile(`/@graph\[(\d+)\]`)

func c17Gen(tier string, emit func(c17Case)) {
	seeds := Seeds()
	{
		data, limit := c17BigLex()
		for i, m := range JSONMutants(data) {
			mm := c17GraphIdx.FindStringSubmatch(m.Desc)
			if mm == nil {
				continue
			}
			var idx int
			fmt.Sscan(mm[1], &idx)
			if idx >= limit || (tier != "thorough" && idx >= 8 && idx < limit-8) {
				continue // quick: the first and last four source maps (first and last chunk of any chunked processing)
			}
			emit(c17Case{Kind: "data", Seed: "biglex", Profile: c14Profile(), Data: m.Text, Desc: "biglex: " + m.Desc, Full: i%8 == 0})
		}
	}
	for _, s := range seeds {
		for _, m := range YAMLMutants(s.Profile) {
			emit(c17Case{Kind: "profile", Seed: s.Name, Profile: m.Text, Data: s.Data, Desc: m.Desc})
		}
		for i, m := range JSONMutants(s.Data) {
			emit(c17Case{Kind: "data", Seed: s.Name, Profile: s.Profile, Data: m.Text, Desc: m.Desc, Full: tier == "thorough" || i%4 == 0})
		}
	}
	// raw strings
	n := 2
	if tier == "thorough" {
		n = 3
	}
	var buf []string
	kind := ""
	flush := func() {
		if len(buf) > 0 {
			emit(c17Case{Kind: kind, Seed: "plain", Raw: buf})
			buf = nil
		}
	}
	kind = "rawprofile"
	RawStrings(YAMLAlphabet, n, func(s string) {
		buf = append(buf, s)
		if len(buf) == 64 {
			flush()
		}
	})
	flush()
	kind = "rawdata"
	RawStrings(JSONAlphabet, n, func(s string) {
		buf = append(buf, s)
		if len(buf) == 256 {
			flush()
		}
	})
	flush()
	if tier == "thorough" {
		// bound 2: every (profile mutation, data mutation) pair for two seeds
		for _, s := range []Seed{seeds[0], seeds[2]} {
			pm := YAMLMutants(s.Profile)
			dm := JSONMutants(s.Data)
			if os.Getenv("VERIF_DEBUG") != "" {
				fmt.Fprintln(os.Stderr, "c17 pairs", s.Name, len(pm), len(dm))
			}
			for i, p := range pm {
				for j, d := range dm {
					if (i+j)%8 != 0 && len(pm)*len(dm) > 400000 {
						continue
					}
					emit(c17Case{Kind: "pair", Seed: s.Name, Profile: p.Text, Data: d.Text, Desc: p.Desc + " + " + d.Desc})
				}
			}
		}
	}
}

// withChan runs f with a fresh event channel drained by a consumer; it reports
// whether the library had closed the channel when f returned (observed without
// timers: closing a closed channel panics).
func withChan(capacity int, f func(ch *chan events.Event) CallRes) (res CallRes, closedByLib bool, evs []events.Event) {
	ch := make(chan events.Event, capacity)
	done := make(chan struct{})
	go func() {
		for e := range ch {
			evs = append(evs, e)
		}
		close(done)
	}()
	res = f(&ch)
	closedByLib = func() (closed bool) {
		defer func() {
			if r := recover(); r != nil {
				closed = true
			}
		}()
		close(ch)
		return false
	}()
	<-done
	return
}

var c17Compiled = map[string]*rego.PreparedEvalQuery{}

func c17SeedQuery(s Seed) *rego.PreparedEvalQuery {
	if q, ok := c17Compiled[s.Name]; ok {
		return q
	}
	q, _ := Compile(s.Profile)
	c17Compiled[s.Name] = q
	return q
}

func seedByName(n string) Seed {
	if n == "biglex" {
		d, _ := c17BigLex()
		return Seed{"biglex", c14Profile(), d}
	}
	for _, s := range Seeds() {
		if s.Name == n {
			return s
		}
	}
	return Seeds()[0]
}

type c17Checker struct {
	c    *Ctx
	cs   any
	desc string
}

func (k *c17Checker) check(entry string, r CallRes, isValidate bool, profile, data string, emptyOK *LDInfo) {
	k.c.Eval(1)
	where := fmt.Sprintf("entry=%s %s", entry, k.desc)
	if r.Panic != nil {
		k.c.Violate("C17 panic at "+r.Panic.Sig(), fmt.Sprintf("%s\npanic: %s\nprofile:\n%s\ndata:\n%s", where, r.Panic.Value, tailStr(profile, 1500), tailStr(data, 1500)), k.cs)
		k.c.Outcome("panic")
		return
	}
	if isValidate {
		switch {
		case r.Err == nil && r.Report == "":
			k.c.Violate("C17 neither report nor error", fmt.Sprintf("%s\nprofile:\n%s\ndata:\n%s", where, tailStr(profile, 1500), tailStr(data, 1500)), k.cs)
		case r.Err != nil && r.Report != "":
			k.c.Violate("C17 both report and error", where, k.cs)
		}
		if r.Err == nil && r.Report != "" {
			if rep, err := ParseReport(r.Report); err != nil {
				k.c.Violate("C17 report is not well-formed", where+"\n"+err.Error()+"\n"+tailStr(r.Report, 800), k.cs)
			} else if emptyOK != nil && emptyOK.FlattenOK && emptyOK.Nodes == 0 && !rep.Conforms {
				k.c.Violate("C17 document without nodes does not conform", where+"\n"+tailStr(r.Report, 800), k.cs)
			}
			k.c.Outcome("report")
		} else if r.Err != nil {
			if emptyOK != nil && emptyOK.FlattenOK && emptyOK.Nodes == 0 {
				k.c.Violate("C17 valid JSON-LD without nodes is rejected", fmt.Sprintf("%s\nerror: %v\ndata:\n%s", where, r.Err, tailStr(data, 600)), k.cs)
			}
			k.c.Outcome("error")
		}
	} else {
		if r.Err != nil {
			k.c.Outcome("compile-error")
		} else {
			k.c.Outcome("compiled")
		}
	}
}

func c17Pair(c *Ctx, cs any, desc, profile, data string, seedQ *rego.PreparedEvalQuery, profileMutated, full bool) {
	k := &c17Checker{c: c, cs: cs, desc: desc}
	var q *rego.PreparedEvalQuery
	if profileMutated {
		qq, r := Compile(profile)
		k.check("CompileProfile", r, false, profile, data, nil)
		q = qq
		var q2 *rego.PreparedEvalQuery
		r2, closed, _ := withChan(64, func(ch *chan events.Event) CallRes {
			var rr CallRes
			q2, rr = CompileCh(profile, ch)
			return rr
		})
		k.check("CompileProfile+chan", r2, false, profile, data, nil)
		_ = closed
		if (q == nil) != (q2 == nil) && r.Panic == nil && r2.Panic == nil {
			c.Violate("C17 CompileProfile differs with and without channel", desc, cs)
		}
	} else {
		q = seedQ
	}
	info := LDClassify(data)
	var li *LDInfo
	if q != nil {
		li = &info
	}
	if q != nil && profileMutated && info.FlattenOK && info.Nodes == 0 {
		// "a document without nodes is a valid, conforming input" presupposes a working profile: a mutated profile that
		// compiles may still fail at evaluation or report building (embedded Rego that redefines generated rules). The
		// clause is applied only if the same compiled profile validates a one-node document without error.
		if r := ValidateCompiled(q, `{"@id":"http://ex.org/probe","@type":"http://ex.org/T"}`); r.Err != nil || r.Panic != nil {
			li = nil
		}
	}
	if profileMutated || full {
		// the text entry points recompile the profile
		liText := li
		k.check("Validate", Validate(profile, data), true, profile, data, liText)
		r4, _, _ := withChan(0, func(ch *chan events.Event) CallRes {
			return ValidateConf(profile, data, Epoch2000, DefaultReportConf(), ch)
		})
		k.check("ValidateWithConfiguration+chan", r4, true, profile, data, liText)
	}
	if q != nil {
		k.check("ValidateCompiled", ValidateCompiled(q, data), true, profile, data, li)
		r6, _, _ := withChan(1, func(ch *chan events.Event) CallRes {
			return ValidateCompiledConf(q, data, Epoch2000, DefaultReportConf(), ch)
		})
		k.check("ValidateCompiledWithConfiguration+chan", r6, true, profile, data, li)
	}
}

func c17Run(c *Ctx, cs c17Case) {
	s := seedByName(cs.Seed)
	switch cs.Kind {
	case "profile":
		c17Pair(c, cs, cs.Desc, cs.Profile, cs.Data, nil, true, true)
		if strings.HasPrefix(cs.Desc, "special") || true {
			c.Nontrivial(cs.Profile)
		}
	case "data":
		c17Pair(c, cs, cs.Desc, cs.Profile, cs.Data, c17SeedQuery(s), false, cs.Full)
		c.Nontrivial(cs.Data)
	case "pair":
		c17Pair(c, cs, cs.Desc, cs.Profile, cs.Data, nil, true, true)
		c.Nontrivial(cs.Profile + "\x00" + cs.Data)
	case "rawprofile":
		for _, raw := range cs.Raw {
			one := c17Case{Kind: "rawprofile", Seed: cs.Seed, Raw: []string{raw}}
			c17Pair(c, one, fmt.Sprintf("raw profile %q", raw), raw, s.Data, nil, true, true)
			if strings.Contains(raw, ":") {
				c.Nontrivial("P" + raw)
			}
		}
	case "rawdata":
		q := c17SeedQuery(s)
		for i, raw := range cs.Raw {
			one := c17Case{Kind: "rawdata", Seed: cs.Seed, Raw: []string{raw}}
			c17Pair(c, one, fmt.Sprintf("raw data %q", raw), s.Profile, raw, q, false, i%16 == 0)
			if LDClassify(raw).Readable {
				c.Nontrivial("D" + raw)
			}
		}
	}
	c.Sample(map[string]any{"kind": cs.Kind, "seed": cs.Seed, "desc": cs.Desc})
}
