//go:build verif

package verifx

import (
	"bytes"
	"encoding/json"
	"fmt"
	"os"
	"os/exec"
	"path/filepath"
	"strings"
	"unicode/utf16"

	"github.com/open-policy-agent/opa/rego"
)

// C04 — unreadable data yields an error, never a verdict.

// ---- independent recogniser: "a complete JSON value can be read from the front"

type jsonRec struct {
	s []byte
	i int
}

func (p *jsonRec) ws() {
	for p.i < len(p.s) && (p.s[p.i] == ' ' || p.s[p.i] == '\t' || p.s[p.i] == '\n' || p.s[p.i] == '\r') {
		p.i++
	}
}

func (p *jsonRec) value() bool {
	p.ws()
	if p.i >= len(p.s) {
		return false
	}
	switch c := p.s[p.i]; {
	case c == '{':
		p.i++
		p.ws()
		if p.i < len(p.s) && p.s[p.i] == '}' {
			p.i++
			return true
		}
		for {
			p.ws()
			if !p.str() {
				return false
			}
			p.ws()
			if p.i >= len(p.s) || p.s[p.i] != ':' {
				return false
			}
			p.i++
			if !p.value() {
				return false
			}
			p.ws()
			if p.i >= len(p.s) {
				return false
			}
			if p.s[p.i] == ',' {
				p.i++
				continue
			}
			if p.s[p.i] == '}' {
				p.i++
				return true
			}
			return false
		}
	case c == '[':
		p.i++
		p.ws()
		if p.i < len(p.s) && p.s[p.i] == ']' {
			p.i++
			return true
		}
		for {
			if !p.value() {
				return false
			}
			p.ws()
			if p.i >= len(p.s) {
				return false
			}
			if p.s[p.i] == ',' {
				p.i++
				continue
			}
			if p.s[p.i] == ']' {
				p.i++
				return true
			}
			return false
		}
	case c == '"':
		return p.str()
	case c == 't':
		return p.lit("true")
	case c == 'f':
		return p.lit("false")
	case c == 'n':
		return p.lit("null")
	case c == '-' || c >= '0' && c <= '9':
		return p.num()
	}
	return false
}

func (p *jsonRec) lit(l string) bool {
	if bytes.HasPrefix(p.s[p.i:], []byte(l)) {
		p.i += len(l)
		return true
	}
	return false
}

func (p *jsonRec) str() bool {
	if p.i >= len(p.s) || p.s[p.i] != '"' {
		return false
	}
	p.i++
	for p.i < len(p.s) {
		c := p.s[p.i]
		switch {
		case c == '"':
			p.i++
			return true
		case c == '\\':
			p.i++
			if p.i >= len(p.s) {
				return false
			}
			switch p.s[p.i] {
			case '"', '\\', '/', 'b', 'f', 'n', 'r', 't':
				p.i++
			case 'u':
				p.i++
				for k := 0; k < 4; k++ {
					if p.i >= len(p.s) || !strings.ContainsRune("0123456789abcdefABCDEF", rune(p.s[p.i])) {
						return false
					}
					p.i++
				}
			default:
				return false
			}
		case c < 0x20:
			return false
		default:
			p.i++
		}
	}
	return false
}

func (p *jsonRec) num() bool {
	if p.i < len(p.s) && p.s[p.i] == '-' {
		p.i++
	}
	if p.i >= len(p.s) {
		return false
	}
	if p.s[p.i] == '0' {
		p.i++
	} else if p.s[p.i] >= '1' && p.s[p.i] <= '9' {
		for p.i < len(p.s) && p.s[p.i] >= '0' && p.s[p.i] <= '9' {
			p.i++
		}
	} else {
		return false
	}
	if p.i < len(p.s) && p.s[p.i] == '.' {
		p.i++
		if p.i >= len(p.s) || p.s[p.i] < '0' || p.s[p.i] > '9' {
			return false
		}
		for p.i < len(p.s) && p.s[p.i] >= '0' && p.s[p.i] <= '9' {
			p.i++
		}
	}
	if p.i < len(p.s) && (p.s[p.i] == 'e' || p.s[p.i] == 'E') {
		p.i++
		if p.i < len(p.s) && (p.s[p.i] == '+' || p.s[p.i] == '-') {
			p.i++
		}
		if p.i >= len(p.s) || p.s[p.i] < '0' || p.s[p.i] > '9' {
			return false
		}
		for p.i < len(p.s) && p.s[p.i] >= '0' && p.s[p.i] <= '9' {
			p.i++
		}
	}
	return true
}

// JSONReadable: can a complete JSON value be read from the front of s?
// (A number directly followed by letters, e.g. "0a", is still a readable "0"
// for a streaming reader; encoding/json's Decoder however scans one byte past a
// number to find its end and rejects "0a" — both readers agree on everything
// else, and the cross-check below pins the exact relation.)
func JSONReadable(s string) bool {
	p := &jsonRec{s: []byte(s)}
	return p.value()
}

// ---- the check ----

type c04Case struct {
	Class string   `json:"class"`
	Data  []string `json:"data"` // raw bytes as Go strings (JSON-escaped in replay files)
	CLI   bool     `json:"cli"`
}

func init() {
	Register(Meta{
		ID: "C04", Level: "exploration", HangIsViolation: true,
		Rule:        "data texts: (a) every byte string of length <=3 (quick) / <=4 (thorough) over a 17-byte JSON structural alphabet incl. 0xFF; (b) every proper prefix and every single-byte deletion of three valid documents (flat, AMF-compact with context, lexical); (c) non-JSON formats: a YAML profile, a RAML header, UTF-16LE/BE and UTF-8-BOM encodings, empty, blanks; (d) 30 JSON-LD keyword misuses as the whole document and nested at depth 1 and 2; (e) documents of 129..4097 (thorough 16385) nodes with one invalid node first / in the middle / at index 128, 2048, 4096 / last, in three document forms, and truncated. x 3 compiled profiles x entry points Validate, ValidateWithConfiguration, ValidateCompiled, ValidateCompiledWithConfiguration and the CLI `acv validate` / `acv normalize` (CLI on classes b-d and strings of length <=2). Membership in 'unreadable' is decided by an independent recogniser cross-checked against encoding/json on every input; 'JSON-LD rejects' by calling json-gold directly. Oracle: unreadable or rejected => error and no report (CLI: non-zero exit, empty stdout). Non-trivial = unreadable or rejected input; distinct by bytes.",
		Assumptions: []string{"json-gold's Flatten is the definition of 'JSON-LD processing rejects it'"},
	}, c04Gen, c04Run)
}

var c04Alphabet = []string{"{", "}", "[", "]", "\"", ":", ",", "\\", "0", "t", "n", " ", "a", "\xff", "-", "e", "."}

func c04Fixtures() []string {
	s := Seeds()
	return []string{s[0].Data, s[5].Data, s[2].Data}
}

func utf16Bytes(s string, big bool) string {
	u := utf16.Encode([]rune(s))
	b := make([]byte, 0, 2*len(u)+2)
	if big {
		b = append(b, 0xFE, 0xFF)
	} else {
		b = append(b, 0xFF, 0xFE)
	}
	for _, x := range u {
		if big {
			b = append(b, byte(x>>8), byte(x))
		} else {
			b = append(b, byte(x), byte(x>>8))
		}
	}
	return string(b)
}

func c04Misuses() []string {
	bad := []string{
		`{"@id":1}`, `{"@id":["a","b"]}`, `{"@id":{"@id":"x"}}`, `{"@id":null,"@type":{}}`,
		`{"@context":42}`, `{"@context":"not a url"}`, `{"@context":[42]}`, `{"@context":{"a":42}}`, `{"@context":{"@vocab":42}}`, `{"@context":{"a":{"@id":42}}}`,
		`{"@context":{"a":{"@type":"@nope","@id":"http://x/a"}}}`, `{"@context":{"@base":42}}`, `{"@context":{"@language":42}}`,
		`{"@graph":1}`, `{"@graph":"x"}`, `{"@type":{}}`, `{"@type":1}`, `{"@type":[1]}`,
		`{"http://x/p":{"@value":"x","@id":"http://x/b"}}`, `{"http://x/p":{"@value":{"a":1}}}`, `{"http://x/p":{"@value":"x","@type":1}}`, `{"http://x/p":{"@value":"x","@language":1}}`,
		`{"http://x/p":{"@value":"x","@type":"http://x/t","@language":"en"}}`, `{"http://x/p":{"@list":[["a"]]}}`, `{"http://x/p":{"@list":[{"@list":["a"]}]}}`,
		`{"@reverse":"x"}`, `{"@reverse":{"http://x/p":"lit"}}`, `{"@reverse":{"@id":"x"}}`, `{"@id":"a","@id ":"b","http://x/p":{"@set":"x","@list":[]}}`,
		`{"@context":{"t":"@type","t2":"@type"},"t":"a","t2":"b"}`, `{"http://x/p":{"@index":1,"@value":"v"}}`,
	}
	var out []string
	for _, b := range bad {
		out = append(out, b,
			`{"@id":"http://ex.org/a","@type":"http://ex.org/T","http://ex.org/c":`+b+`}`,
			`{"@graph":[{"@id":"http://ex.org/a","@type":"http://ex.org/T","http://ex.org/c":{"@id":"http://ex.org/b","http://ex.org/d":[`+b+`]}}]}`)
	}
	return out
}

// c04Large expands a descriptor "n/pos/kind/form": a document of n nodes whose node number pos is invalid in the way
// `kind` names; form g = {"@graph":[...]}, a = top-level array, c = with an @context, t = the g form cut before its
// last byte (not JSON at all).
func c04Large(desc string) string {
	var n, pos int
	var kind, form string
	parts := strings.Split(desc, "/")
	fmt.Sscan(parts[0], &n)
	fmt.Sscan(parts[1], &pos)
	kind, form = parts[2], parts[3]
	bad := map[string]string{
		"id-number":    `{"@id":1,"@type":"http://ex.org/T"}`,
		"type-number":  `{"@id":"http://ex.org/bad","@type":5}`,
		"value-and-id": `{"@id":"http://ex.org/bad","http://ex.org/p1":{"@value":"x","@id":"http://ex.org/b"}}`,
		"list-of-list": `{"@id":"http://ex.org/bad","http://ex.org/p1":{"@list":[["a"]]}}`,
	}[kind]
	if bad == "" {
		panic("harness: unknown large-document kind " + kind)
	}
	var b strings.Builder
	switch form {
	case "a":
		b.WriteString("[")
	case "c":
		b.WriteString(`{"@context":{"ex":"http://ex.org/"},"@graph":[`)
	default:
		b.WriteString(`{"@graph":[`)
	}
	for i := 0; i < n; i++ {
		if i > 0 {
			b.WriteString(",")
		}
		if i == pos {
			b.WriteString(bad)
		} else {
			fmt.Fprintf(&b, `{"@id":"http://ex.org/n%d","@type":"http://ex.org/T","http://ex.org/p2":"v%d"}`, i, i)
		}
	}
	if form == "a" {
		b.WriteString("]")
	} else {
		b.WriteString("]}")
	}
	out := b.String()
	if form == "t" {
		out = out[:len(out)-1]
	}
	return out
}

func c04Gen(tier string, emit func(c04Case)) {
	n := 3
	if tier == "thorough" {
		n = 4
	}
	var buf []string
	var bufCLI bool
	class := ""
	flush := func() {
		if len(buf) > 0 {
			emit(c04Case{Class: class, Data: buf, CLI: bufCLI})
			buf = nil
		}
	}
	push := func(cl, s string, cli bool, pack int) {
		if cl != class || cli != bufCLI {
			flush()
			class, bufCLI = cl, cli
		}
		buf = append(buf, s)
		if len(buf) >= pack {
			flush()
		}
	}
	RawStrings(c04Alphabet, n, func(s string) { push("a:bytes", s, len(s) <= 2, 128) })
	flush()
	for _, fx := range c04Fixtures() {
		for i := 0; i < len(fx); i++ {
			cli := i%37 == 0 || tier == "thorough" && i%5 == 0
			push("b:prefix", fx[:i], cli, 24)
		}
		for i := 0; i < len(fx); i++ {
			push("b:deletion", fx[:i]+fx[i+1:], i%53 == 0, 24)
		}
	}
	flush()
	valid := c04Fixtures()[0]
	for _, s := range []string{
		seedProfilePlain, "#%RAML 1.0\ntitle: API\nversion: 1.0\n", "openapi: 3.0.0\ninfo: {title: x}\n", "<?xml version=\"1.0\"?><a/>",
		utf16Bytes(valid, false), utf16Bytes(valid, true), "\xef\xbb\xbf" + valid, "", " ", "\n\n\t ", "\x00", valid[:len(valid)-1] + "\x00", "//comment\n" + valid, "/* c */" + valid,
		"'single quoted'", "{'a':1}", "{a:1}", "[1,2,]", "{\"a\":1,}", "NaN", "Infinity", "+1", "01", "1.", ".5", "0x10", "\"\\x41\"", "\"unterminated", "tru", "nul", "[", "{", "{\"a\"", "{\"a\":", "[1", "[1,",
	} {
		push("c:format", s, true, 8)
	}
	flush()
	// wrappers around unreadable texts (a byte-order mark or other prefix must not turn them into something readable)
	for _, pre := range []string{"\xef\xbb\xbf", "\xff\xfe", "\xfe\xff", "\x00", " \n", "\xef\xbb\xbf\xef\xbb\xbf"} {
		for _, body := range []string{"", "not json", valid[:len(valid)/2], seedProfilePlain, "{\"@id\":1}", "{\"@context\":42}", "[1,2", "{", "null x"} {
			push("c:wrapped", pre+body, true, 8)
		}
	}
	flush()
	for _, s := range c04Misuses() {
		push("d:jsonld", s, true, 8)
	}
	flush()
	// (e) large documents with ONE invalid node: sizes on both sides of powers of two up to 8192, the invalid node first,
	// in the middle, at a power-of-two index, last (a reader that splits, batches or parallelises large inputs must
	// not lose the rejection)
	sizes := []int{129, 513, 2049, 4097}
	if tier == "thorough" {
		sizes = append(sizes, 1025, 8193, 16385)
	}
	for _, n := range sizes {
		for _, pos := range []int{0, n / 2, n - 1, 128, 2048, 4096} {
			if pos >= n {
				continue
			}
			for ki, kind := range []string{"type-number", "id-number", "value-and-id", "list-of-list"} {
				form := "g"
				if ki == 1 {
					form = "a"
				} else if ki == 2 {
					form = "c"
				}
				push("e:large", fmt.Sprintf("%d/%d/%s/%s", n, pos, kind, form), n == 2049 && pos == 2048, 1)
			}
		}
		push("e:large", fmt.Sprintf("%d/%d/type-number/t", n, 0), false, 1)
	}
	flush()
}

var c04Queries []*rego.PreparedEvalQuery
var c04Profiles []string

func c04Setup() {
	if c04Queries != nil {
		return
	}
	s := Seeds()
	c04Profiles = []string{s[0].Profile, s[3].Profile, "profile: empty\nvalidations: {}\n"}
	for _, p := range c04Profiles {
		q, r := Compile(p)
		if q == nil {
			panic("harness: C04 seed profile does not compile: " + r.ErrString())
		}
		c04Queries = append(c04Queries, q)
	}
}

func runACV(args ...string) (stdout string, exit int) {
	acv := os.Getenv("VERIF_ACV")
	cmd := exec.Command(acv, args...)
	var out, errb bytes.Buffer
	cmd.Stdout = &out
	cmd.Stderr = &errb
	err := cmd.Run()
	if err != nil {
		if ee, ok := err.(*exec.ExitError); ok {
			return out.String(), ee.ExitCode()
		}
		return out.String(), -1
	}
	return out.String(), 0
}

func c04Run(c *Ctx, cs c04Case) {
	c04Setup()
	work := os.Getenv("VERIF_WORK")
	for _, d := range cs.Data {
		one := c04Case{Class: cs.Class, Data: []string{d}, CLI: cs.CLI}
		if cs.Class == "e:large" {
			d = c04Large(d) // the case carries a descriptor, not the megabyte of text
		}
		readable := JSONReadable(d)
		// cross-check the recogniser against encoding/json (harness self-check)
		var v any
		dec := json.NewDecoder(strings.NewReader(d))
		dec.UseNumber()
		stdOK := dec.Decode(&v) == nil
		if stdOK != readable {
			// the only tolerated disagreement: the Decoder needs to see the end of a top-level number/literal
			if !(readable && !stdOK) {
				panic(fmt.Sprintf("harness: JSON recogniser disagrees with encoding/json on %q (recogniser=%v)", d, readable))
			}
			c.Count("recogniser_stricter_in_stdlib", 1)
			readable = false // follow the reader the statement is about: the library's own decoder
		}
		info := LDClassify(d)
		mustFail := !readable || !info.FlattenOK
		if mustFail {
			c.Nontrivial(d)
		}
		cl := "readable+accepted"
		if !readable {
			cl = "unreadable"
		} else if !info.FlattenOK {
			cl = "jsonld-rejects"
		}
		judge := func(entry string, r CallRes) {
			c.Eval(1)
			if r.Panic != nil {
				if mustFail {
					c.Violate("C04 panic instead of an error at "+r.Panic.Sig(), fmt.Sprintf("entry=%s class=%s data=%q\n%s", entry, cl, tailStr(d, 400), r.Panic.Value), one)
				}
				c.Outcome(cl + " -> panic")
				return
			}
			if mustFail {
				if r.Err == nil || r.Report != "" {
					verdict := ""
					if rep, err := ParseReport(r.Report); err == nil {
						verdict = fmt.Sprintf(" (report says conforms=%v)", rep.Conforms)
					}
					c.Violate("C04 "+cl+" data produced a report"+verdict, fmt.Sprintf("entry=%s data=%q\nflatten error: %v\nreport: %s", entry, tailStr(d, 400), info.Err, tailStr(r.Report, 300)), one)
				}
				c.Outcome(cl + " -> error")
			} else {
				if r.Err != nil {
					c.Outcome(cl + " -> error")
				} else {
					c.Outcome(cl + " -> report")
				}
			}
		}
		for pi, q := range c04Queries {
			judge("ValidateCompiled", ValidateCompiled(q, d))
			if pi == 0 || mustFail {
				judge("ValidateCompiledWithConfiguration", ValidateCompiledConf(q, d, Epoch2000, DefaultReportConf(), nil))
			}
		}
		if mustFail || len(d) < 3 {
			judge("Validate", Validate(c04Profiles[0], d))
			judge("ValidateWithConfiguration", ValidateConf(c04Profiles[2], d, Epoch2000, DefaultReportConf(), nil))
		}
		if cs.CLI && mustFail && work != "" {
			pf := filepath.Join(work, fmt.Sprintf("c04-%d-profile.yaml", os.Getpid()))
			df := filepath.Join(work, fmt.Sprintf("c04-%d-data.jsonld", os.Getpid()))
			os.WriteFile(pf, []byte(c04Profiles[0]), 0o644)
			os.WriteFile(df, []byte(d), 0o644)
			for _, sub := range [][]string{{"validate", pf, df}, {"normalize", df}} {
				out, code := runACV(sub...)
				c.Eval(1)
				if code == 0 || c18HasReport(out) {
					c.Violate("C04 CLI `acv "+sub[0]+"` succeeds or prints on "+cl+" data", fmt.Sprintf("exit=%d stdout=%q data=%q", code, tailStr(out, 300), tailStr(d, 300)), one)
				}
				c.Outcome("cli " + sub[0] + " exit!=0")
			}
			os.Remove(pf)
			os.Remove(df)
		}
	}
	c.Sample(map[string]any{"class": cs.Class, "first": tailStr(fmt.Sprintf("%q", cs.Data[0]), 120), "n": len(cs.Data)})
}
