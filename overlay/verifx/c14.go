//go:build verif

package verifx

import (
	"encoding/json"
	"fmt"
	"strconv"
	"strings"

	"github.com/open-policy-agent/opa/rego"
)

// C14 — result locations reproduce the input's lexical source maps.

const (
	smNS  = "http://a.ml/vocabularies/document-source-maps#"
	docNS = "http://a.ml/vocabularies/document#"
)

// nodes carrying (optional) lexical entries, in this order
var c14Nodes = []string{"t0", "t1", "t2", "t3", "c0", "c1"}

type c14Case struct {
	Mode     string      `json:"mode"`   // full | nosm (no source maps at all) | nobusi (source maps but no BaseUnitSourceInformation)
	Ranges   [][4]string `json:"ranges"` // per node: l1,c1,l2,c2 as decimal strings
	Files    []int       `json:"files"`  // per node: 0 root, 1 extra1, 2 extra2
	NodeMask int         `json:"node_mask"`
	PropMask int         `json:"prop_mask"`
	Kind     string      `json:"kind,omitempty"`     // mode kinds: which constraint kind produces the results and traces
	FileSet  int         `json:"file_set,omitempty"` // which spelling of the three file names (axis U); 0 = plain file URIs
}

var c14Files = []string{"file:///root.raml", "file:///lib/extra1.raml", "file:///lib/extra2.raml"}

// c14FileSets: the same three roles (root file, two included files) in spellings a URI library would rewrite if the
// strings took a detour through it: blanks, non-ASCII, already-escaped octets, dot segments, upper-case scheme and
// host, query and fragment. The report must carry them verbatim (consumers key on the string). Relative references are left
// out on purpose: resolving them against the root location would be a legitimate reading of "the file the node was declared in".
var c14FileSets = [][]string{
	c14Files,
	{"file:///my api/root file.raml", "file:///work/shared types/lib.raml", "file:///lib/josé/größe.raml"},
	{"FILE:///Root.raml", "file:///api/../common/./lib.raml", "HTTP://EXAMPLE.org:80/a%20b/%7Euser/lib.raml"},
	{"file:///C:/api/root.raml", "file:///c:/API/types/user.raml", "file://./test/lib.raml?rev=1&x=a+b#/types/0"},
	{"urn:uuid:6e8bc430-9c3a-11d9-9669-0800200c9a66", "jar:file:/libs/x.jar!/lib.raml", "file:///a/%2e%2e/b/%E6%97%A5.raml"},
}

func c14FilesOf(cs c14Case) []string {
	if cs.FileSet > 0 && cs.FileSet < len(c14FileSets) {
		return c14FileSets[cs.FileSet]
	}
	return c14Files
}

func c14Profile() string {
	return EmitYAML(M("profile", "c14", "prefixes", M("ex", EX),
		"violation", strs("v1", "v2"),
		"validations", M(
			"v1", M("message", "needs p1", "targetClass", "ex.T", "propertyConstraints", M("ex.p1", M("minCount", 1))),
			"v2", M("message", "children need p4", "targetClass", "ex.T", "propertyConstraints", M("ex.c", M("nested", M("propertyConstraints", M("ex.p4", M("minCount", 1)))))),
		)))
}

func c14Names() []string { return []string{"v1", "v2"} }

type c14Loc struct {
	Range  [4]string
	URI    string
	HasURI bool
}

// c14BuildMany: N failing target nodes, each with its own source map (size thresholds in the lexical indexing);
// node i is declared in file i%3, every third node has no node-level entry.
func c14BuildMany(n int) (*Graph, string, map[string]*c14Loc) {
	g := &Graph{}
	exp := map[string]*c14Loc{}
	busi := g.Add(EX+"BaseUnitSourceInformation", docNS+"BaseUnitSourceInformation")
	busi.P(docNS+"rootLocation", c14Files[0])
	locs := []*GNode{nil, g.Add(EX+"BaseUnitSourceInformation/location_0", docNS+"LocationInformation"), g.Add(EX+"BaseUnitSourceInformation/location_1", docNS+"LocationInformation")}
	for f := 1; f <= 2; f++ {
		locs[f].P(docNS+"location", c14Files[f])
		busi.P(docNS+"additionalLocations", Ref(locs[f].ID))
	}
	for i := 0; i < n; i++ {
		id := fmt.Sprintf("%sm%d", EX, i)
		node := g.Add(id, EX+"T")
		if i%3 != 2 {
			sm := g.Add(id+"/source-map", smNS+"SourceMap")
			e := g.Add(id + "/source-map/lexical/element_0")
			r := [4]string{fmt.Sprint(i), fmt.Sprint(i + 1000), fmt.Sprint(i + 1), fmt.Sprint(2*i + 7)}
			e.P(smNS+"element", id).P(smNS+"value", fmt.Sprintf("[(%s,%s)-(%s,%s)]", r[0], r[1], r[2], r[3]))
			sm.P(smNS+"lexical", Ref(e.ID))
			node.P(smNS+"sources", Ref(sm.ID))
			exp[id] = &c14Loc{Range: r, URI: c14Files[i%3], HasURI: true}
		}
		if i%3 != 0 {
			locs[i%3].P(docNS+"elements", Ref(id))
		}
	}
	return g, g.FlatJSONLD(), exp
}

// c14Build renders the document and returns the expected location per node id.
func c14Build(cs c14Case) (*Graph, string, map[string]*c14Loc) {
	if cs.Mode == "many" {
		return c14BuildMany(cs.NodeMask)
	}
	g := &Graph{}
	id := func(s string) string { return EX + s }
	g.Add(id("t0"), EX+"T")
	g.Add(id("t1"), EX+"T").P(EX+"c", Ref(id("c1")))
	g.Add(id("t2"), EX+"T").P(EX+"p1", "v").P(EX+"c", Ref(id("c0")))
	g.Add(id("t3"), EX+"T").P(EX+"p1", "v").P(EX+"c", Ref(id("c1")))
	g.Add(id("c0"), EX+"C")
	g.Add(id("c1"), EX+"C").P(EX+"p4", "v")
	exp := map[string]*c14Loc{}
	if cs.Mode == "nosm" {
		return g, g.FlatJSONLD(), exp
	}
	rng := func(r [4]string) string { return fmt.Sprintf("[(%s,%s)-(%s,%s)]", r[0], r[1], r[2], r[3]) }
	for i, n := range c14Nodes {
		hasNode := cs.NodeMask&(1<<i) != 0
		hasProp := cs.PropMask&(1<<i) != 0
		if !hasNode && !hasProp {
			continue
		}
		sm := g.Add(id(n)+"/source-map", smNS+"SourceMap")
		g.Node(id(n)).P(smNS+"sources", Ref(sm.ID))
		k := 0
		if hasProp {
			// a property-level entry: element is a property IRI, with a different range
			e := g.Add(fmt.Sprintf("%s/lexical/element_%d", sm.ID, k))
			k++
			pr := cs.Ranges[i]
			e.P(smNS+"element", EX+"p1").P(smNS+"value", rng([4]string{pr[3], pr[2], pr[1], pr[0]}))
			sm.P(smNS+"lexical", Ref(e.ID))
		}
		if hasNode {
			e := g.Add(fmt.Sprintf("%s/lexical/element_%d", sm.ID, k))
			e.P(smNS+"element", id(n)).P(smNS+"value", rng(cs.Ranges[i]))
			sm.P(smNS+"lexical", Ref(e.ID))
			loc := &c14Loc{Range: cs.Ranges[i]}
			if cs.Mode == "full" {
				loc.URI, loc.HasURI = c14FilesOf(cs)[cs.Files[i]], true
			}
			exp[id(n)] = loc
		}
	}
	if cs.Mode == "full" {
		busi := g.Add(EX+"BaseUnitSourceInformation", docNS+"BaseUnitSourceInformation")
		busi.P(docNS+"rootLocation", c14FilesOf(cs)[0])
		for f := 1; f <= 2; f++ {
			var elems []any
			for i, n := range c14Nodes {
				if cs.Files[i] == f {
					elems = append(elems, Ref(id(n)))
				}
			}
			if len(elems) == 0 {
				continue
			}
			li := g.Add(fmt.Sprintf("%sBaseUnitSourceInformation/location_%d", EX, f-1), docNS+"LocationInformation")
			li.P(docNS+"location", c14FilesOf(cs)[f])
			li.P(docNS+"elements", elems...)
			busi.P(docNS+"additionalLocations", Ref(li.ID))
		}
	}
	return g, g.FlatJSONLD(), exp
}

var c14M5 = []string{"0", "1", "10", "2147483648", "9007199254740993"}
var c14M10 = []string{"0", "1", "9", "10", "99", "100", "2147483647", "2147483648", "9007199254740993", "100000000000000000000"}

func c14DefaultRanges(m []string) [][4]string {
	out := make([][4]string, len(c14Nodes))
	for i := range c14Nodes {
		for j := 0; j < 4; j++ {
			// distinct numbers in the four positions so that a permutation is visible
			out[i][j] = strconv.Itoa(11 + 10*i + j*3 + j*j)
		}
	}
	return out
}

var c14DefaultFiles = []int{1, 0, 2, 0, 1, 0}

func c14GenCases(tier string, emit func(c14Case)) {
	m := c14M5
	if tier == "thorough" {
		m = c14M10
	}
	def := c14DefaultRanges(m)
	// axis R: every 4-tuple for t0 (others rotate through the alphabet)
	n := len(m)
	for a := 0; a < n; a++ {
		for b := 0; b < n; b++ {
			for c := 0; c < n; c++ {
				for d := 0; d < n; d++ {
					rs := make([][4]string, len(c14Nodes))
					copy(rs, def)
					rs[0] = [4]string{m[a], m[b], m[c], m[d]}
					rs[4] = [4]string{m[(a+1)%n], m[(b+2)%n], m[(c+3)%n], m[(d+4)%n]} // the nested child
					rs[2] = [4]string{m[d], m[c], m[b], m[a]}
					emit(c14Case{Mode: "full", Ranges: rs, Files: c14DefaultFiles, NodeMask: 63, PropMask: 0})
				}
			}
		}
	}
	// axis F: every assignment of nodes to files
	nf := 4 // quick: the four reported nodes t0,t1,t2,c0
	if tier == "thorough" {
		nf = 6
	}
	order := []int{0, 1, 2, 4, 3, 5}
	total := 1
	for i := 0; i < nf; i++ {
		total *= 3
	}
	for x := 0; x < total; x++ {
		fs := make([]int, len(c14Nodes))
		y := x
		for i := 0; i < nf; i++ {
			fs[order[i]] = y % 3
			y /= 3
		}
		emit(c14Case{Mode: "full", Ranges: def, Files: fs, NodeMask: 63, PropMask: 0})
		emit(c14Case{Mode: "full", Ranges: def, Files: fs, NodeMask: 63, PropMask: 21})
	}
	// axis U: spellings of the file names x a few node-to-file assignments
	for set := 1; set < len(c14FileSets); set++ {
		for _, fs := range [][]int{c14DefaultFiles, {0, 1, 2, 0, 1, 2}, {2, 2, 1, 1, 0, 0}, {1, 1, 1, 1, 1, 1}} {
			emit(c14Case{Mode: "full", Ranges: def, Files: fs, NodeMask: 63, PropMask: 0, FileSet: set})
		}
	}
	// axis E: which nodes have node-level / property-level entries
	for nm := 0; nm < 64; nm++ {
		pms := []int{0, 63, nm ^ 63}
		if tier == "thorough" {
			pms = nil
			for pm := 0; pm < 64; pm++ {
				pms = append(pms, pm)
			}
		}
		for _, pm := range pms {
			emit(c14Case{Mode: "full", Ranges: def, Files: c14DefaultFiles, NodeMask: nm, PropMask: pm})
			if pm == 0 || pm == 63 {
				emit(c14Case{Mode: "nobusi", Ranges: def, Files: c14DefaultFiles, NodeMask: nm, PropMask: pm})
			}
		}
	}
	emit(c14Case{Mode: "nosm", Ranges: def, Files: c14DefaultFiles})
	// size axis: 1..70 source maps (NodeMask carries the node count)
	for n := 1; n <= 70; n++ {
		if tier == "thorough" || n <= 4 || n%8 == 0 || n == 31 || n == 33 || n == 65 {
			emit(c14Case{Mode: "many", NodeMask: n})
		}
	}
	// ... and on both sides of every power of two up to 1024 (thorough 4096), with counts that are not multiples of
	// small chunk sizes (an index built in chunks or by several workers must not lose the tail)
	for _, n := range []int{127, 128, 129, 255, 256, 257, 511, 512, 513, 771, 1003, 1023, 1024, 1025} {
		emit(c14Case{Mode: "many", NodeMask: n})
	}
	if tier == "thorough" {
		for _, n := range []int{2047, 2049, 3001, 4095, 4097} {
			emit(c14Case{Mode: "many", NodeMask: n})
		}
	}
	// axis K: every constraint kind (results and traces of each kind carry the location)
	for _, k := range c14KindSpecs() {
		emit(c14Case{Mode: "kinds", Kind: k.name})
	}
}

// ---- documents shared with C12 ----

var c14Shared []c14Case

func c14SharedCases() []c14Case {
	if c14Shared == nil {
		i := 0
		c14GenCases("quick", func(cs c14Case) {
			i++
			if cs.Mode == "kinds" {
				return
			}
			if i%97 == 0 || cs.Mode != "full" && i%7 == 0 {
				c14Shared = append(c14Shared, cs)
			}
		})
	}
	return c14Shared
}

func c14DocNames(tier string) []string {
	var out []string
	for i := range c14SharedCases() {
		out = append(out, fmt.Sprintf("lex:%d", i))
	}
	return out
}

func c14NamedDoc(name string) (*Graph, string) {
	i, _ := strconv.Atoi(strings.TrimPrefix(name, "lex:"))
	g, data, _ := c14Build(c14SharedCases()[i])
	return g, data
}

// ---- the check ----
// c14Walk checks every result, trace entry and sub-result of a report against the expected location of its focus node.
func c14Walk(c *Ctx, cs c14Case, report string, exp map[string]*c14Loc) (nres, withLoc, withoutLoc int, ok bool) {
	res := CallRes{Report: report}
	bad := func(sig, f string, a ...any) {
		c.Violate("C14 "+sig, fmt.Sprintf(f, a...)+"\ncase: "+JSON(cs)+"\nreport:\n"+tailStr(res.Report, 2500), nil)
	}
	num := func(v any) string {
		switch n := v.(type) {
		case json.Number:
			return n.String()
		}
		return fmt.Sprint(v)
	}
	checkLoc := func(holder map[string]any, node, where string) {
		want := exp[node]
		loc, has := holder["location"]
		if want == nil {
			if has {
				bad("location present without a lexical entry", "%s about %s has a location", where, node)
			}
			withoutLoc++
			return
		}
		withLoc++
		lm, ok := loc.(map[string]any)
		if !has || !ok {
			bad("location missing", "%s about %s has no location, expected %v", where, node, want.Range)
			return
		}
		rg, _ := lm["range"].(map[string]any)
		st, _ := rg["start"].(map[string]any)
		en, _ := rg["end"].(map[string]any)
		got := [4]string{num(st["line"]), num(st["column"]), num(en["line"]), num(en["column"])}
		if got != want.Range {
			bad("range numbers differ", "%s about %s: got %v want %v", where, node, got, want.Range)
		}
		if want.HasURI {
			if u, _ := lm["uri"].(string); u != want.URI {
				bad("uri differs", "%s about %s: uri %q want %q", where, node, u, want.URI)
			}
		}
	}
	var walkResult func(m map[string]any, where string)
	walkResult = func(m map[string]any, where string) {
		nres++
		fn, _ := m["focusNode"].(string)
		checkLoc(m, fn, where)
		tr, _ := m["trace"].([]any)
		for i, t := range tr {
			tm, ok := t.(map[string]any)
			if !ok {
				continue
			}
			checkLoc(tm, fn, fmt.Sprintf("%s/trace/%d", where, i))
			if tv, ok := tm["traceValue"].(map[string]any); ok {
				if sub, ok := tv["subResult"].([]any); ok {
					for j, s := range sub {
						if sm, ok := s.(map[string]any); ok {
							walkResult(sm, fmt.Sprintf("%s/trace/%d/subResult/%d", where, i, j))
						}
					}
				}
			}
		}
	}
	rep, err := ParseReport(res.Report)
	if err != nil {
		bad("report malformed", "%v", err)
		return nres, withLoc, withoutLoc, false
	}
	for i, r := range rep.Results {
		walkResult(r.Raw, fmt.Sprintf("/result/%d", i))
	}
	return nres, withLoc, withoutLoc, true
}

func init() {
	Register(Meta{
		ID: "C14", Level: "exploration",
		Rule:        "AMF-shaped source maps generated for a 6-node skeleton (2 nodes failing at top level, 1 failing through a nested child so a sub-result and its trace carry the child's location, passing nodes): axis R = every 4-tuple (start line/column, end line/column) over a magnitude alphabet (0 .. 2^31 .. 2^53+1 [.. 10^20]); axis F = every assignment of nodes to {root file, 2 additional files} (1 or several additional locations, 1 or several elements each); axis U = 4 further spellings of the three (absolute) file names (blanks, non-ASCII, escaped octets, dot segments, upper-case scheme/host, drive letters, query and fragment, urn:/jar: schemes) x 4 assignments, reported verbatim; axis E = every subset of nodes having a node-level entry x property-level-only entries, with and without BaseUnitSourceInformation; no source maps; size axis: 1..70 failing nodes with one source map each and counts around every power of two up to 1024 (4096); axis K = every constraint kind of the C01 atom catalogue (plain, negated, as a condition) plus uniqueValues on a path, nested/atLeast/atMost, alternative/inverse/sequence paths, custom Rego in three forms, and/or/not/if-then-else, each on its own small graph with lexical entries on two thirds of the nodes (some declared in an additional file). Oracle: location present iff node-level entry, numbers equal as decimal strings, uri = declaring file; and the report equals the source-map-free report once all location members are deleted. Non-trivial = document where at least one reported node has a location and one does not, or any axis-R/F case with locations; distinct by document text.",
		Assumptions: []string{"one lexical entry per node (AMF emits one)"},
	}, func(tier string, emit func(c14Case)) { c14GenCases(tier, emit) }, c14Run)
}

var c14Query *rego.PreparedEvalQuery
var c14Baseline string

func stripLocations(v any) any {
	switch x := v.(type) {
	case map[string]any:
		out := map[string]any{}
		for k, e := range x {
			if k == "location" {
				continue
			}
			out[k] = stripLocations(e)
		}
		return out
	case []any:
		out := make([]any, len(x))
		for i, e := range x {
			out[i] = stripLocations(e)
		}
		return out
	}
	return v
}

func canonStripped(text string) (string, error) {
	var top any
	dec := json.NewDecoder(strings.NewReader(text))
	dec.UseNumber()
	if err := dec.Decode(&top); err != nil {
		return "", err
	}
	b, _ := json.Marshal(stripLocations(top))
	return string(b), nil
}

func c14Run(c *Ctx, cs c14Case) {
	if cs.Mode == "kinds" {
		c14RunKind(c, cs)
		return
	}
	if c14Query == nil {
		q, cr := Compile(c14Profile())
		if q == nil {
			c.Violate("C14 profile rejected: "+firstLine(cr.ErrString()), c14Profile(), nil)
			return
		}
		c14Query = q
		_, plain, _ := c14Build(c14Case{Mode: "nosm"})
		r := ValidateCompiled(q, plain)
		if r.Err != nil || r.Panic != nil {
			c.Violate("C14 baseline failed: "+firstLine(r.ErrString()), "", nil)
			return
		}
		c14Baseline, _ = canonStripped(r.Report)
	}
	_, data, exp := c14Build(cs)
	res := ValidateCompiled(c14Query, data)
	c.Eval(1)
	if res.Panic != nil || res.Err != nil {
		c.Violate("C14 validation failed: "+firstLine(res.ErrString()), data, nil)
		return
	}
	var top any
	dec := json.NewDecoder(strings.NewReader(res.Report))
	dec.UseNumber()
	if err := dec.Decode(&top); err != nil {
		c.Violate("C14 report not JSON", err.Error(), nil)
		return
	}
	baseline := c14Baseline
	if cs.Mode == "many" {
		plain := &Graph{}
		for i := 0; i < cs.NodeMask; i++ {
			plain.Add(fmt.Sprintf("%sm%d", EX, i), EX+"T")
		}
		rb := ValidateCompiled(c14Query, plain.FlatJSONLD())
		baseline, _ = canonStripped(rb.Report)
	}
	// differential: otherwise unaffected
	if st, _ := canonStripped(res.Report); st != baseline {
		c.Violate("C14 source maps change more than the location members", "with:\n"+tailStr(st, 2500)+"\nwithout:\n"+tailStr(c14Baseline, 2500), nil)
	}
	nres, withLoc, withoutLoc, ok := c14Walk(c, cs, res.Report, exp)
	if !ok {
		return
	}
	if nres < 4 && cs.Mode != "many" || cs.Mode == "many" && nres != cs.NodeMask {
		c.Violate("C14 fewer results than the skeleton produces", fmt.Sprintf("results+subresults=%d\ncase: %s\nreport:\n%s", nres, JSON(cs), tailStr(res.Report, 2500)), nil)
	}
	if withLoc > 0 && (withoutLoc > 0 || cs.PropMask == 0) {
		c.Nontrivial(data)
	}
	c.Outcome(fmt.Sprintf("mode=%s withLoc>0=%v withoutLoc>0=%v", cs.Mode, withLoc > 0, withoutLoc > 0))
	c.Sample(cs)
}

// ---- axis K: every constraint kind -------------------------------------------

// c14KindSpec: a profile whose results (and traces) come from one constraint kind, and a graph on which it fails.
type c14KindSpec struct {
	name string
	prof string
	g    *Graph
}

func c14KindSpecs() []c14KindSpec {
	var out []c14KindSpec
	for _, k := range c01AtomKinds() {
		prof, g := c01AtomProfile(k)
		out = append(out, c14KindSpec{"atom " + k.name, prof, g})
	}
	one := func(name string, body *YMap, g *Graph) {
		v := M("message", "m {{ex.v}}")
		hasTarget := false
		for _, k := range body.Keys {
			hasTarget = hasTarget || k == "targetClass"
		}
		if !hasTarget {
			v.Set("targetClass", "ex.T")
		}
		for i, k := range body.Keys {
			v.Set(k, body.Vals[i])
		}
		out = append(out, c14KindSpec{name, EmitYAML(M("profile", "c14 kinds", "prefixes", M("ex", EX), "violation", strs("v"), "validations", M("v", v))), g})
	}
	kids := func() *Graph {
		g := &Graph{}
		g.Add(nid(0), EX+"T").P(EX+"c", Ref(EX+"k0"), Ref(EX+"k1"))
		g.Add(nid(1), EX+"T").P(EX+"c", Ref(EX+"k0"), Ref(EX+"k2"))
		g.Add(nid(2), EX+"T").P(EX+"v", "x")
		g.Add(nid(3), EX+"T").P(EX+"c", Ref(EX+"k2"), Ref(EX+"k3")).P(EX+"w", "y")
		g.Add(EX+"k0", EX+"C").P(EX+"v", "a")
		g.Add(EX+"k1", EX+"C").P(EX+"v", "a")
		g.Add(EX+"k2", EX+"C").P(EX+"v", "b")
		g.Add(EX+"k3", EX+"C")
		return g
	}
	inner := M("propertyConstraints", M("ex.v", M("in", strs("b"))))
	one("uniqueValues on a path", M("propertyConstraints", M("ex.c / ex.v", M("uniqueValues", true))), kids())
	one("nested", M("propertyConstraints", M("ex.c", M("nested", inner))), kids())
	one("atLeast", M("propertyConstraints", M("ex.c", M("atLeast", M("count", 2, "validation", inner)))), kids())
	one("atMost", M("propertyConstraints", M("ex.c", M("atMost", M("count", 0, "validation", inner)))), kids())
	one("alternative path", M("propertyConstraints", M("ex.v | ex.w", M("minCount", 1))), kids())
	one("inverse path", M("targetClass", "ex.C", "propertyConstraints", M("ex.c^", M("maxCount", 1))), kids())
	one("sequence path with in", M("propertyConstraints", M("ex.c / ex.v", M("in", strs("b")))), kids())
	one("custom rego", M("rego", "$result = false\n"), kids())
	one("custom rego with message", M("rego", M("code", "$result = false\n", "message", "custom")), kids())
	one("rego under a path", M("propertyConstraints", M("ex.v", M("rego", "$result = false\n"))), kids())
	one("or of two kinds", M("or", []any{M("propertyConstraints", M("ex.v", M("minCount", 1))), M("propertyConstraints", M("ex.w", M("pattern", "^z")))}), kids())
	one("and of two kinds", M("and", []any{M("propertyConstraints", M("ex.v", M("minCount", 1))), M("propertyConstraints", M("ex.w", M("minCount", 1)))}), kids())
	one("not", M("not", M("propertyConstraints", M("ex.v", M("minCount", 1)))), kids())
	one("if-then-else", M("if", M("propertyConstraints", M("ex.v", M("minCount", 1))), "then", M("propertyConstraints", M("ex.w", M("minCount", 1))), "else", M("propertyConstraints", M("ex.c", M("minCount", 1)))), kids())
	return out
}

func c14KindByName(name string) c14KindSpec {
	for _, k := range c14KindSpecs() {
		if k.name == name {
			return k
		}
	}
	panic("harness: unknown C14 kind " + name)
}

// c14RunKind: every node of the kind's graph whose position is not a multiple of 3 gets a lexical entry (numbers derived
// from its position; every fourth node is declared in an additional file); each result, trace entry and sub-result
// about such a node must carry exactly that location, the others none; and deleting the locations gives the report of
// the same graph without source maps.
func c14RunKind(c *Ctx, cs c14Case) {
	k := c14KindByName(cs.Kind)
	plain := k.g.FlatJSONLD()
	g := k.g
	exp := map[string]*c14Loc{}
	busi := g.Add(EX+"BaseUnitSourceInformation", docNS+"BaseUnitSourceInformation")
	busi.P(docNS+"rootLocation", c14Files[0])
	extra := g.Add(EX+"BaseUnitSourceInformation/location_0", docNS+"LocationInformation")
	extra.P(docNS+"location", c14Files[1])
	nExtra := 0
	ids := []string{}
	for _, n := range g.Nodes {
		ids = append(ids, n.ID)
	}
	for i, id := range ids {
		if strings.HasPrefix(id, EX+"BaseUnitSourceInformation") || i%3 == 2 {
			continue
		}
		sm := g.Add(id+"/source-map", smNS+"SourceMap")
		e := g.Add(id + "/source-map/lexical/element_0")
		r := [4]string{fmt.Sprint(3*i + 1), fmt.Sprint(100 + i), fmt.Sprint(3*i + 2), fmt.Sprint(200 + 7*i)}
		e.P(smNS+"element", id).P(smNS+"value", fmt.Sprintf("[(%s,%s)-(%s,%s)]", r[0], r[1], r[2], r[3]))
		sm.P(smNS+"lexical", Ref(e.ID))
		g.Node(id).P(smNS+"sources", Ref(sm.ID))
		loc := &c14Loc{Range: r, URI: c14Files[0], HasURI: true}
		if i%4 == 1 {
			extra.P(docNS+"elements", Ref(id))
			loc.URI = c14Files[1]
			nExtra++
		}
		exp[id] = loc
	}
	if nExtra > 0 {
		busi.P(docNS+"additionalLocations", Ref(extra.ID))
	}
	q, cr := Compile(k.prof)
	if q == nil {
		c.Violate("C14 profile rejected: "+firstLine(cr.ErrString()), k.prof, nil)
		return
	}
	res := ValidateCompiled(q, g.FlatJSONLD())
	base := ValidateCompiled(q, plain)
	c.Eval(2)
	if res.Panic != nil || res.Err != nil || base.Panic != nil || base.Err != nil {
		c.Violate("C14 validation failed: "+firstLine(res.ErrString()+base.ErrString()), k.prof, nil)
		return
	}
	st, _ := canonStripped(res.Report)
	bt, _ := canonStripped(base.Report)
	if st != bt {
		c.Violate("C14 source maps change more than the location members", "kind "+cs.Kind+"\nwith:\n"+tailStr(st, 2500)+"\nwithout:\n"+tailStr(bt, 2500), nil)
	}
	nres, withLoc, withoutLoc, ok := c14Walk(c, cs, res.Report, exp)
	if !ok {
		return
	}
	if nres == 0 {
		panic("harness: C14 kind " + cs.Kind + " produces no result; the kind is not exercised\n" + k.prof)
	}
	if withLoc > 0 && withoutLoc > 0 {
		c.Nontrivial("kind " + cs.Kind)
	}
	c.Outcome(fmt.Sprintf("mode=kinds withLoc>0=%v withoutLoc>0=%v", withLoc > 0, withoutLoc > 0))
	c.Sample(cs)
}
