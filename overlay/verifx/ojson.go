//go:build verif

package verifx

import (
	"bytes"
	"encoding/json"
	"fmt"
	"strings"
)

// Ordered JSON DOM: objects keep key order so that surface rewrites of a
// document (key order, indentation) are expressible on the text level.

type OMap struct {
	Keys []string
	Vals []any
}

func (m *OMap) Get(k string) (any, bool) {
	for i, kk := range m.Keys {
		if kk == k {
			return m.Vals[i], true
		}
	}
	return nil, false
}

func (m *OMap) Set(k string, v any) {
	for i, kk := range m.Keys {
		if kk == k {
			m.Vals[i] = v
			return
		}
	}
	m.Keys = append(m.Keys, k)
	m.Vals = append(m.Vals, v)
}

func (m *OMap) Del(k string) {
	for i, kk := range m.Keys {
		if kk == k {
			m.Keys = append(m.Keys[:i:i], m.Keys[i+1:]...)
			m.Vals = append(m.Vals[:i:i], m.Vals[i+1:]...)
			return
		}
	}
}

func OM(kv ...any) *OMap {
	m := &OMap{}
	for i := 0; i+1 < len(kv); i += 2 {
		m.Set(kv[i].(string), kv[i+1])
	}
	return m
}

// OParse parses JSON text into the ordered DOM (numbers stay json.Number).
func OParse(text string) (any, error) {
	dec := json.NewDecoder(strings.NewReader(text))
	dec.UseNumber()
	v, err := oparseValue(dec)
	if err != nil {
		return nil, err
	}
	return v, nil
}

func oparseValue(dec *json.Decoder) (any, error) {
	tok, err := dec.Token()
	if err != nil {
		return nil, err
	}
	switch t := tok.(type) {
	case json.Delim:
		switch t {
		case '{':
			m := &OMap{}
			for dec.More() {
				kt, err := dec.Token()
				if err != nil {
					return nil, err
				}
				v, err := oparseValue(dec)
				if err != nil {
					return nil, err
				}
				m.Keys = append(m.Keys, kt.(string))
				m.Vals = append(m.Vals, v)
			}
			dec.Token()
			return m, nil
		case '[':
			arr := []any{}
			for dec.More() {
				v, err := oparseValue(dec)
				if err != nil {
					return nil, err
				}
				arr = append(arr, v)
			}
			dec.Token()
			return arr, nil
		}
	}
	return tok, nil
}

// OClone deep-copies a DOM value.
func OClone(v any) any {
	switch x := v.(type) {
	case *OMap:
		c := &OMap{Keys: append([]string{}, x.Keys...), Vals: make([]any, len(x.Vals))}
		for i, e := range x.Vals {
			c.Vals[i] = OClone(e)
		}
		return c
	case []any:
		c := make([]any, len(x))
		for i, e := range x {
			c[i] = OClone(e)
		}
		return c
	}
	return v
}

// OEmit renders the DOM; indent "" = compact.
func OEmit(v any, indent string) string {
	var b bytes.Buffer
	oemit(&b, v, indent, 0)
	return b.String()
}

func oscalar(v any) string {
	var b bytes.Buffer
	enc := json.NewEncoder(&b)
	enc.SetEscapeHTML(false)
	enc.Encode(v)
	return strings.TrimRight(b.String(), "\n")
}

func oemit(b *bytes.Buffer, v any, indent string, depth int) {
	nl := func(d int) {
		if indent != "" {
			b.WriteByte('\n')
			b.WriteString(strings.Repeat(indent, d))
		}
	}
	switch x := v.(type) {
	case *OMap:
		if len(x.Keys) == 0 {
			b.WriteString("{}")
			return
		}
		b.WriteByte('{')
		for i, k := range x.Keys {
			if i > 0 {
				b.WriteByte(',')
			}
			nl(depth + 1)
			b.WriteString(oscalar(k))
			b.WriteByte(':')
			if indent != "" {
				b.WriteByte(' ')
			}
			oemit(b, x.Vals[i], indent, depth+1)
		}
		nl(depth)
		b.WriteByte('}')
	case []any:
		if len(x) == 0 {
			b.WriteString("[]")
			return
		}
		b.WriteByte('[')
		for i, e := range x {
			if i > 0 {
				b.WriteByte(',')
			}
			nl(depth + 1)
			oemit(b, e, indent, depth+1)
		}
		nl(depth)
		b.WriteByte(']')
	default:
		b.WriteString(oscalar(v))
	}
}

// OFromGraph builds the canonical flattened DOM of an abstract graph:
// {"@graph":[{"@id","@type":[..],pred: value | [values]}]} with full IRIs.
func OFromGraph(g *Graph) *OMap {
	nodes := []any{}
	for _, n := range g.Nodes {
		m := OM("@id", n.ID)
		if len(n.Types) > 0 {
			ts := make([]any, len(n.Types))
			for i, t := range n.Types {
				ts[i] = t
			}
			m.Set("@type", ts)
		}
		for _, p := range n.Props {
			conv := func(v any) any {
				switch x := v.(type) {
				case Ref:
					return OM("@id", string(x))
				case int:
					return json.Number(fmt.Sprint(x))
				case float64:
					return json.Number(fmt.Sprint(x))
				}
				return v
			}
			if len(p.Vals) == 1 {
				m.Set(p.Pred, conv(p.Vals[0]))
			} else {
				a := make([]any, len(p.Vals))
				for i, v := range p.Vals {
					a[i] = conv(v)
				}
				m.Set(p.Pred, a)
			}
		}
		nodes = append(nodes, m)
	}
	return OM("@graph", nodes)
}
