//go:build verif

package verifx

import (
	"fmt"
	"strings"
)

// C01 — reported nodes are exactly the target nodes that fail the formula.

type c01Case struct {
	Fam   string `json:"fam"`
	Graph string `json:"graph"`
	Forms []*F   `json:"forms"`
}

var pc = "ex.c" // child link used by the quantifier families

func childKindProps(n *GNode, kind int) {
	if kind&1 != 0 {
		n.P(EX+"p4", "v")
	}
	if kind&2 != 0 {
		n.P(EX+"p5", "v")
	}
}

// graphQ1: parents (class T) with atom A (p1) x every multiset of <=3 children
// over the 4 child kinds (p4,p5 assignments); the pool has 3 children per kind,
// shared between parents.
func graphQ1() *Graph {
	g := &Graph{}
	for kind := 0; kind < 4; kind++ {
		for j := 0; j < 3; j++ {
			childKindProps(g.Add(fmt.Sprintf("%sc%d_%d", EX, kind, j), EX+"C"), kind)
		}
	}
	i := 0
	for a := 0; a < 2; a++ {
		for c0 := 0; c0 <= 3; c0++ {
			for c1 := 0; c0+c1 <= 3; c1++ {
				for c2 := 0; c0+c1+c2 <= 3; c2++ {
					for c3 := 0; c0+c1+c2+c3 <= 3; c3++ {
						n := g.Add(nid(i), EX+"T")
						i++
						if a == 1 {
							n.P(EX+"p1", "v")
						}
						for kind, cnt := range []int{c0, c1, c2, c3} {
							for j := 0; j < cnt; j++ {
								n.P(EX+"c", Ref(fmt.Sprintf("%sc%d_%d", EX, kind, j)))
							}
						}
					}
				}
			}
		}
	}
	// a non-target parent with failing children and a literal under the link property
	g.Add(EX+"u0", EX+"U").P(EX+"c", Ref(EX+"c0_0"))
	g.Add(nid(i), EX+"T").P(EX+"c", "a-literal", Ref(EX+"c3_0"))
	return g
}

// graphQ2: three layers. leaves l<kind>_<j> (2 per kind), mids m<i> = A-bit x
// multiset of <=2 leaf kinds, tops n<i> (class T) linking to 0..3 mids.
func graphQ2() *Graph {
	g := &Graph{}
	for kind := 0; kind < 4; kind++ {
		for j := 0; j < 2; j++ {
			childKindProps(g.Add(fmt.Sprintf("%sl%d_%d", EX, kind, j), EX+"L"), kind)
		}
	}
	var mids []string
	for a := 0; a < 2; a++ {
		var sets [][]int
		sets = append(sets, []int{})
		for k := 0; k < 4; k++ {
			sets = append(sets, []int{k})
		}
		for k := 0; k < 4; k++ {
			for k2 := k; k2 < 4; k2++ {
				sets = append(sets, []int{k, k2})
			}
		}
		for _, s := range sets {
			id := fmt.Sprintf("%sm%d", EX, len(mids))
			n := g.Add(id, EX+"C")
			mids = append(mids, id)
			if a == 1 {
				n.P(EX+"p1", "v")
			}
			used := map[int]int{}
			for _, k := range s {
				n.P(EX+"c", Ref(fmt.Sprintf("%sl%d_%d", EX, k, used[k])))
				used[k]++
			}
		}
	}
	t := 0
	top := func(ms ...int) {
		n := g.Add(nid(t), EX+"T")
		if t%2 == 1 {
			n.P(EX+"p1", "v")
		}
		t++
		for _, m := range ms {
			n.P(EX+"c", Ref(mids[m%len(mids)]))
		}
	}
	top()
	top()
	for i := range mids {
		top(i)
	}
	for i := 0; i+1 < len(mids); i++ {
		top(i, i+1)
	}
	for i := range mids {
		top(i, i+7, i+13)
	}
	return g
}

var c01Graphs = map[string]func() *Graph{
	"tt3": func() *Graph { return TruthTableGraph(3, true) },
	"tt4": func() *Graph { return TruthTableGraph(4, true) },
	// size thresholds: the truth table with decoys replicated 20 times (480 nodes, 320 of them targets)
	"tt3x20": func() *Graph {
		base := TruthTableGraph(3, true)
		g := &Graph{}
		for r := 0; r < 20; r++ {
			for _, n := range base.Nodes {
				cp := g.Add(fmt.Sprintf("%s-r%d", n.ID, r), n.Types...)
				cp.Props = n.Props
			}
		}
		return g
	},
	// documents past the sizes at which an implementation might start to batch, slice or parallelise its input
	"tt3x86":  func() *Graph { return replicate(TruthTableGraph(3, true), 86) },  // 2064 nodes
	"tt3x171": func() *Graph { return replicate(TruthTableGraph(3, true), 171) }, // 4104 nodes
	"q1x30":   func() *Graph { return replicate(graphQ1(), 30) },
	"q1":      graphQ1,
	"q2":      graphQ2,
}

var c01GraphCache = map[string]*Graph{}
var c01DataCache = map[string]string{}

// replicate copies a graph r times, renaming every node (and every link) with a replica suffix.
func replicate(base *Graph, r int) *Graph {
	g := &Graph{}
	for k := 0; k < r; k++ {
		suf := fmt.Sprintf("-r%d", k)
		for _, n := range base.Nodes {
			cp := g.Add(n.ID+suf, n.Types...)
			for _, p := range n.Props {
				vals := make([]any, len(p.Vals))
				for i, v := range p.Vals {
					if ref, ok := v.(Ref); ok {
						vals[i] = Ref(string(ref) + suf)
					} else {
						vals[i] = v
					}
				}
				cp.P(p.Pred, vals...)
			}
		}
	}
	return g
}

func c01Graph(name string) (*Graph, string) {
	if g, ok := c01GraphCache[name]; ok {
		return g, c01DataCache[name]
	}
	g := c01Graphs[name]()
	c01GraphCache[name] = g
	c01DataCache[name] = g.FlatJSONLD()
	return g, c01DataCache[name]
}

func init() {
	Register(Meta{
		ID: "C01", Level: "exploration",
		Rule:        "family prop: every formula over not/and/or/if/if-else with <=S connective nodes and width<=3 over atoms p1..p3 (ordered operands, repetition, explicit and implicit `and` spellings), each decided on all 8 truth assignments x {target, non-target, doubly-typed} nodes; family quant: nested/atLeast k/atMost k over every inner formula of size<=1 on child atoms, in 9 connective contexts, and over every inner formula of size 2 (bare; thorough: also negated and under `and`), on 71 parents = atom bit x every multiset of <=3 children over 4 child kinds (children shared); family depth: quantifier chains and sibling quantifiers to depth 3 on a 3-layer graph; families prop-huge / quant-huge / manyvals: one formula of each connective and quantifier kind on documents of 2064 (thorough 4104) and 2000+ nodes, and 33..129 (257) validations in one profile; family twins: formulas whose profiles have the same lines up to indentation, validated in turn; family atoms: documented atomic constraint kinds, plain and negated, on their value domains. Oracle = recursive classical evaluator written from the statement. Non-trivial = formula whose reference truth table over the target nodes has both values; distinct by rendered profile text.",
		Assumptions: []string{"json-gold flattening of an already flat, fully expanded document is the identity on the graph (cross-checked by C05)"},
	}, c01Gen, c01Run)
}

const c01Pack = 8

func c01Gen(tier string, emit func(c01Case)) {
	packEmit := func(fam, graph string, forms []*F) {
		for i := 0; i < len(forms); i += c01Pack {
			j := i + c01Pack
			if j > len(forms) {
				j = len(forms)
			}
			emit(c01Case{Fam: fam, Graph: graph, Forms: forms[i:j]})
		}
	}
	// ---- family 1: propositional skeleton
	maxS := 2
	if tier == "thorough" {
		maxS = 3
	}
	var all []*F
	for s := 0; s <= maxS; s++ {
		w := 3
		if s == 3 {
			w = 2
		}
		fs := PropFormulas(s, []int{1, 2, 3}, w)
		if s == 3 {
			// width 2 at size 3: if/else (three operands) is kept
		}
		for _, f := range fs {
			all = append(all, f)
			if v, ok := f.SetImplicit(); ok {
				all = append(all, v)
			}
		}
	}
	packEmit("prop", "tt3", all)
	{
		var small []*F
		for s := 0; s <= 1; s++ {
			small = append(small, PropFormulas(s, []int{1, 2, 3}, 3)...)
		}
		packEmit("prop-large", "tt3x20", small)
		// > 2048 (thorough: > 4096) nodes: one formula of each connective
		A, B, C := FAtom(1), FAtom(2), FAtom(3)
		huge := []*F{A, FNot(A), FAnd(A, B), FOr(A, B, C), FIf(A, B), FIfElse(A, B, C), FNot(FOr(FAnd(A, B), C))}
		emit(c01Case{Fam: "prop-huge", Graph: "tt3x86", Forms: huge})
		if tier == "thorough" {
			emit(c01Case{Fam: "prop-huge", Graph: "tt3x171", Forms: huge})
		}
		// many validations in one profile (each is checked for its own set of reported nodes)
		for _, k := range []int{33, 65, 129, 257} {
			if tier != "thorough" && k > 129 {
				continue
			}
			var fs []*F
			for i := 0; i < k; i++ {
				fs = append(fs, small[(i*7)%len(small)])
			}
			emit(c01Case{Fam: "manyvals", Graph: "tt3", Forms: fs})
		}
	}

	// ---- family twins: formulas whose profiles differ only in indentation
	{
		A, B, C := FAtom(1), FAtom(2), FAtom(3)
		emit(c01Case{Fam: "twins", Graph: "tt3", Forms: []*F{FOr(FAnd(A, B), C), FOr(FAnd(A), B, C)}})
		emit(c01Case{Fam: "twins", Graph: "tt3", Forms: []*F{FAnd(FOr(A, B), C), FAnd(FOr(A), B, C)}})
		emit(c01Case{Fam: "twins", Graph: "tt3", Forms: []*F{FOr(FAnd(A, B, C)), FOr(FAnd(A, B), C), FOr(FAnd(A), B, C)}})
		emit(c01Case{Fam: "twins", Graph: "tt3", Forms: []*F{FAnd(FOr(A, FAnd(B, C))), FAnd(FOr(A, FAnd(B), C)), FAnd(FOr(A, FAnd(B)), C)}})
	}
	// ---- family 1w: wide connectives — and/or of width 4 (thorough: also 5) whose operands are atoms and
	// two-member conjunctions / disjunctions over 4 atoms (operand multisets; the translator sorts operands)
	{
		var opsAnd, opsOr, opsAll []*F
		for a := 1; a <= 4; a++ {
			opsAnd, opsOr, opsAll = append(opsAnd, FAtom(a)), append(opsOr, FAtom(a)), append(opsAll, FAtom(a))
		}
		for a := 1; a <= 4; a++ {
			for b := a + 1; b <= 4; b++ {
				opsAnd = append(opsAnd, FAnd(FAtom(a), FAtom(b)))
				opsOr = append(opsOr, FOr(FAtom(a), FAtom(b)))
				opsAll = append(opsAll, FAnd(FAtom(a), FAtom(b)), FOr(FAtom(a), FNot(FAtom(b))))
			}
		}
		var wide []*F
		var rec func(ops []*F, w, start int, cur []*F)
		rec = func(ops []*F, w, start int, cur []*F) {
			if len(cur) == w {
				k := append([]*F{}, cur...)
				wide = append(wide, FOr(k...), FAnd(k...), FNot(FOr(k...)))
				return
			}
			for i := start; i < len(ops); i++ {
				rec(ops, w, i, append(cur, ops[i]))
			}
		}
		rec(opsAnd, 4, 0, nil)
		rec(opsOr, 4, 0, nil)
		if tier == "thorough" {
			rec(opsAll, 4, 0, nil)
			rec(opsAnd, 5, 0, nil)
		}
		packEmit("wide", "tt4", wide)
	}

	// ---- family 2: quantifiers in contexts
	maxK := 2
	if tier == "thorough" {
		maxK = 3
	}
	inner := append(PropFormulas(0, []int{4, 5}, 2), PropFormulas(1, []int{4, 5}, 2)...)
	path := PP(pc)
	var qs []*F
	for _, in := range inner {
		qs = append(qs, FNested(path, in))
		for k := 0; k <= maxK; k++ {
			qs = append(qs, FAtLeast(k, path, in), FAtMost(k, path, in))
		}
	}
	A := FAtom(1)
	var ctxs []*F
	for _, q := range qs {
		ctxs = append(ctxs,
			q, FNot(q), FAnd(A, q), FOr(A, q), FOr(FNot(A), FNot(q)),
			FIf(A, q), FIf(q, A), FIfElse(A, q, FNot(q)), FNot(FIfElse(q, A, A)),
			&F{Op: "and", Sp: 1, Kids: []*F{A, q}},
		)
	}
	packEmit("quant", "q1", ctxs)
	{
		// the quantifier graph replicated 30 times (> 2048 nodes): one quantifier of each kind
		in := FOr(FAtom(4), FNot(FAtom(5)))
		emit(c01Case{Fam: "quant-huge", Graph: "q1x30", Forms: []*F{FNested(path, in), FAtLeast(2, path, in), FAtMost(1, path, in), FNot(FNested(path, FAtom(4))), FAnd(A, FAtLeast(1, path, FAtom(5)))}})
	}

	// ---- family 2c: quantifiers over inner formulas with two connectives (a disjunction of conjunctions, a negated
	// conditional, ... — the translator expands the inner formula into several branches and has to combine the
	// per-branch sets of failing children); bare and negated (thorough: also under `and` with an atom)
	{
		inner2 := PropFormulas(2, []int{4, 5}, 2)
		var q2s []*F
		for _, in := range inner2 {
			for _, q := range []*F{FNested(path, in), FAtLeast(1, path, in), FAtLeast(2, path, in), FAtMost(0, path, in), FAtMost(1, path, in)} {
				q2s = append(q2s, q)
				if tier == "thorough" {
					q2s = append(q2s, FNot(q), FAnd(A, q))
				}
			}
		}
		packEmit("quant2", "q1", q2s)
	}

	// ---- family 2b: depth and sibling quantifiers
	mkQ := func(kind int, body *F) *F {
		switch kind {
		case 0:
			return FNested(path, body)
		case 1:
			return FAtLeast(1, path, body)
		case 2:
			return FAtLeast(2, path, body)
		case 3:
			return FAtMost(0, path, body)
		default:
			return FAtMost(1, path, body)
		}
	}
	var deep []*F
	leafBodies := []*F{FAtom(4), FNot(FAtom(4)), FOr(FAtom(4), FAtom(5))}
	for q1 := 0; q1 < 5; q1++ {
		for q2 := 0; q2 < 5; q2++ {
			for _, lb := range leafBodies {
				deep = append(deep, mkQ(q1, mkQ(q2, lb)))
				deep = append(deep, mkQ(q1, FNot(mkQ(q2, lb))))
				deep = append(deep, mkQ(q1, FAnd(FAtom(1), mkQ(q2, lb))))
				deep = append(deep, mkQ(q1, FOr(FAtom(1), mkQ(q2, lb))))
			}
			// sibling quantifiers under one parent quantifier (same path: explicit and, and one-key spelling)
			sib := FAnd(mkQ(q2, FAtom(4)), mkQ((q2+1)%5, FAtom(5)))
			deep = append(deep, mkQ(q1, sib))
			if v, ok := mkQ(q1, sib).SetImplicit(); ok {
				deep = append(deep, v)
			}
			deep = append(deep, FOr(mkQ(q1, FAtom(1)), mkQ(q2, mkQ(q1, FAtom(5)))))
		}
	}
	if tier == "thorough" {
		for q1 := 0; q1 < 5; q1++ {
			for q2 := 0; q2 < 5; q2++ {
				for q3 := 0; q3 < 5; q3++ {
					_ = q3
				}
			}
		}
	}
	packEmit("depth", "q2", deep)

	// ---- family sibs: q quantified sibling constraints (q = 1..32), one target node per sibling position that
	// violates exactly that sibling (every variable index meets a failing and a passing instance)
	maxQ := 32
	for q := 1; q <= maxQ; q++ {
		if tier != "thorough" && q > 8 && q%4 != 0 && q != 25 && q != 26 && q != 27 && q != 11 && q != 13 {
			continue
		}
		emit(c01Case{Fam: "sibs", Graph: fmt.Sprintf("sibs:%d", q)})
	}

	// ---- family negtower: every size<=1 formula f under further negations and in negated positions
	{
		var small []*F
		for s := 0; s <= 1; s++ {
			small = append(small, PropFormulas(s, []int{1, 2, 3}, 2)...)
		}
		A := FAtom(3)
		var tower []*F
		for _, f := range small {
			tower = append(tower,
				FNot(FNot(f)), FNot(FNot(FNot(f))),
				FIf(FNot(f), A), FIf(A, FNot(f)), FIfElse(FNot(f), A, FNot(A)),
				FNot(FOr(FNot(f), A)), FNot(FAnd(FNot(f), A)), FOr(FNot(FNot(f)), A),
				FNot(FIf(FNot(f), A)), FNot(FIfElse(A, FNot(f), f)),
			)
		}
		packEmit("negtower", "tt3", tower)
	}

	// ---- family 3: atom catalogue
	c01AtomCases(emit)
}

func c01Profile(forms []*F) string {
	top := M("profile", "c01", "prefixes", M("ex", EX))
	var names []any
	vals := M()
	for i, f := range forms {
		name := fmt.Sprintf("v%d", i)
		names = append(names, name)
		v := M("message", "m", "targetClass", "ex.T")
		b := f.Body()
		for j, k := range b.Keys {
			v.Set(k, b.Vals[j])
		}
		vals.Set(name, v)
	}
	top.Set("violation", names)
	top.Set("validations", vals)
	return EmitYAML(top)
}

func targetNodes(g *Graph, class string) []string {
	var out []string
	for _, n := range g.Nodes {
		for _, t := range n.Types {
			if t == class {
				out = append(out, n.ID)
				break
			}
		}
	}
	return out
}

// c01Eval runs one profile and returns per-validation observed focus sets.
func c01Eval(forms []*F, data string) (map[int]map[string]bool, string, CallRes) {
	prof := c01Profile(forms)
	res := Validate(prof, data)
	if res.Panic != nil || res.Err != nil {
		return nil, prof, res
	}
	rep, err := ParseReport(res.Report)
	if err != nil {
		return nil, prof, CallRes{Err: err}
	}
	out := map[int]map[string]bool{}
	for i := range forms {
		out[i] = rep.FocusSet(fmt.Sprintf("v%d", i))
	}
	for _, r := range rep.Results {
		if !strings.HasPrefix(r.Shape, "v") {
			return nil, prof, CallRes{Err: fmt.Errorf("result for unknown validation %q", r.Shape)}
		}
	}
	return out, prof, CallRes{}
}

func c01Expected(f *F, g *Graph) (map[string]bool, bool) {
	exp := map[string]bool{}
	ts := targetNodes(g, EX+"T")
	for _, id := range ts {
		if !f.Eval(g, id) {
			exp[id] = true
		}
	}
	return exp, len(exp) > 0 && len(exp) < len(ts)
}

// c01RunSibs: q sibling quantified constraints ex.k1..ex.kq (kinds rotate), node i violates exactly sibling i.
func c01RunSibs(c *Ctx, cs c01Case) {
	var q int
	fmt.Sscanf(cs.Graph, "sibs:%d", &q)
	g := &Graph{}
	good := g.Add(EX+"good", EX+"C").P(EX+"p4", "v")
	bad := g.Add(EX+"bad", EX+"C")
	_ = good
	_ = bad
	pc := M()
	for i := 1; i <= q; i++ {
		inner := M("propertyConstraints", M("ex.p4", M("minCount", 1)))
		switch i % 3 {
		case 0:
			pc.Set(fmt.Sprintf("ex.k%d", i), M("nested", inner))
		case 1:
			pc.Set(fmt.Sprintf("ex.k%d", i), M("atLeast", M("count", 1, "validation", inner)))
		default:
			pc.Set(fmt.Sprintf("ex.k%d", i), M("atMost", M("count", 0, "validation", M("not", inner))))
		}
	}
	exp := map[string]bool{}
	for i := 0; i <= q; i++ { // node 0 satisfies everything
		n := g.Add(nid(i), EX+"T")
		for k := 1; k <= q; k++ {
			if k == i {
				n.P(fmt.Sprintf("%sk%d", EX, k), Ref(EX+"bad"))
			} else {
				n.P(fmt.Sprintf("%sk%d", EX, k), Ref(EX+"good"))
			}
		}
		if i > 0 {
			exp[nid(i)] = true
		}
	}
	prof := EmitYAML(M("profile", "c01 sibs", "prefixes", M("ex", EX), "violation", strs("v"),
		"validations", M("v", M("message", "m", "targetClass", "ex.T", "propertyConstraints", pc))))
	res := Validate(prof, g.FlatJSONLD())
	c.Eval(1)
	c.Nontrivial(prof)
	if res.Panic != nil || res.Err != nil {
		c.Violate("C01 profile rejected [sibs]: "+firstLine(res.ErrString()), prof, nil)
		return
	}
	rep, err := ParseReport(res.Report)
	if err != nil {
		c.Violate("C01 report malformed [sibs]", err.Error(), nil)
		return
	}
	got := rep.FocusSet("v")
	if !setEq(got, exp) {
		missing, extra := diffSets(exp, got)
		c.Violate("C01 verdict mismatch [sibs]: a sibling quantified constraint is not evaluated at some position", fmt.Sprintf("%d siblings; nodes violating sibling i not reported: %v; reported though satisfying: %v\nprofile:\n%s", q, missing, extra, tailStr(prof, 1500)), nil)
	}
	c.Outcome("sibs ok")
	c.Sample(map[string]any{"family": "sibs", "siblings": q})
}

// c01RunTwins: the formulas of the case render to profiles with the same lines up to leading blanks (in YAML the
// indentation IS the structure) but different meanings. Each is validated by its text, alone in its profile, in the
// order 0,1,..,0,1,..: every verdict is the formula's own, whatever was validated just before.
func c01RunTwins(c *Ctx, cs c01Case) {
	g, data := c01Graph(cs.Graph)
	strip := func(p string) string {
		var l []string
		for _, x := range strings.Split(p, "\n") {
			l = append(l, strings.TrimSpace(x))
		}
		return strings.Join(l, "\n")
	}
	base := strip(c01Profile([]*F{cs.Forms[0]}))
	for _, f := range cs.Forms[1:] {
		if strip(c01Profile([]*F{f})) != base {
			panic("harness: C01 twins do not render to the same lines: " + f.String())
		}
	}
	for round := 0; round < 2; round++ {
		for _, f := range cs.Forms {
			obs, prof, res := c01Eval([]*F{f}, data)
			c.Eval(1)
			if res.Panic != nil || res.Err != nil {
				c.Violate("C01 profile rejected [twins]: "+firstLine(res.ErrString()), prof, nil)
				continue
			}
			exp, nontriv := c01Expected(f, g)
			if nontriv {
				c.Nontrivial("twins|" + f.String())
			}
			if !setEq(obs[0], exp) {
				missing, extra := diffSets(exp, obs[0])
				c.Violate("C01 verdict mismatch [twins]: a profile is taken for another one that differs only in indentation", fmt.Sprintf("formula %s (round %d; validated in turn with %d other formulas whose profiles have the same lines up to indentation)\nnot reported though failing: %v\nreported though satisfying: %v\nprofile:\n%s", f, round, len(cs.Forms)-1, missing, extra, prof), nil)
			}
		}
	}
	c.Outcome("twins ok")
}

func c01Run(c *Ctx, cs c01Case) {
	if cs.Fam == "atoms" {
		c01RunAtoms(c, cs)
		return
	}
	if cs.Fam == "sibs" {
		c01RunSibs(c, cs)
		return
	}
	if cs.Fam == "twins" {
		c01RunTwins(c, cs)
		return
	}
	g, data := c01Graph(cs.Graph)
	obs, prof, res := c01Eval(cs.Forms, data)
	c.Eval(1)
	failedPack := res.Panic != nil || res.Err != nil
	for i, f := range cs.Forms {
		exp, nontriv := c01Expected(f, g)
		if nontriv {
			c.Nontrivial(cs.Graph + "|" + f.String())
		}
		if !failedPack && setEq(obs[i], exp) {
			c.Outcome(fmt.Sprintf("%s ok failing=%d", cs.Fam, len(exp)))
			continue
		}
		// re-run the formula alone: packing must neither create nor hide a violation
		sobs, sprof, sres := c01Eval([]*F{f}, data)
		c.Eval(1)
		one := c01Case{Fam: cs.Fam, Graph: cs.Graph, Forms: []*F{f}}
		if sres.Panic != nil || sres.Err != nil {
			c.Violate("C01 profile rejected ["+cs.Fam+"]: "+firstLine(sres.ErrString())+" shape="+f.Skeleton(),
				fmt.Sprintf("formula %s\n%s\nprofile:\n%s", f, sres.ErrString(), sprof), one)
			continue
		}
		if setEq(sobs[0], exp) {
			c.Violate("C01 cross-validation interference (pack differs from single)",
				fmt.Sprintf("formula %s passes alone but not in pack\npack profile:\n%s\npack error: %s", f, prof, res.ErrString()), cs)
			continue
		}
		missing, extra := diffSets(exp, sobs[0])
		c.Violate("C01 verdict mismatch ["+cs.Fam+"] shape="+f.Skeleton(),
			fmt.Sprintf("formula %s on graph %s\nnot reported though failing: %v\nreported though satisfying: %v\nprofile:\n%s", f, cs.Graph, missing, extra, sprof), one)
	}
	c.Sample(map[string]any{"family": cs.Fam, "graph": cs.Graph, "formula": cs.Forms[0].String()})
}

func diffSets(exp, got map[string]bool) (missing, extra []string) {
	for k := range exp {
		if !got[k] {
			missing = append(missing, strings.TrimPrefix(k, EX))
		}
	}
	for k := range got {
		if !exp[k] {
			extra = append(extra, strings.TrimPrefix(k, EX))
		}
	}
	sortStrings(missing)
	sortStrings(extra)
	return
}
