//go:build verif

package verifx

import (
	"fmt"
	"os"
	"strings"
	"time"
)

// Bench prints a few timings (development aid: `vworker bench`).
func BenchChains() {
	for _, d := range []int{5, 8, 10, 12, 14, 16, 20} {
		body := c07Atom
		for i := 0; i < d; i++ {
			body = M("propertyConstraints", M("ex.c", c07Quant(0, body)))
		}
		prof := c07One(body)
		t0 := time.Now()
		q, r := Compile(prof)
		t1 := time.Now()
		if q == nil {
			fmt.Println("depth", d, "compile failed", firstLine(r.ErrString()), t1.Sub(t0))
			continue
		}
		rr := ValidateCompiled(q, `{}`)
		t2 := time.Now()
		fmt.Println("depth", d, "compile", t1.Sub(t0), "eval{}", t2.Sub(t1), rr.Err)
	}
}

func Bench() {
	if os.Getenv("BENCH_REFCTX") != "" {
		d := c10DataG(4).RefContextJSONLD("other")
		fmt.Println(d)
		r := Validate(c10Pd, d)
		fmt.Println("err:", r.ErrString(), "report bytes:", len(r.Report), strings.Count(r.Report, "focusNode"))
		return
	}
	if os.Getenv("BENCH_ANCHOR") != "" {
		n := 0
		for _, m := range YAMLMutants(Seeds()[0].Profile) {
			if strings.Contains(m.Desc, "anchored") {
				n++
				if n <= 3 {
					fmt.Println("==", m.Desc)
					fmt.Println(m.Text)
					r := Validate(m.Text, Seeds()[0].Data)
					fmt.Println("->", firstLine(r.ErrString()), len(r.Report))
				}
			}
		}
		fmt.Println("anchored mutants:", n)
		return
	}
	BenchChains()
	return
	fs := PropFormulas(2, []int{1, 2, 3}, 3)
	g, data := c01Graph("tt3")
	_ = g
	for _, n := range []int{1, 8, 32} {
		prof := c01Profile(fs[1000 : 1000+n])
		t0 := time.Now()
		q, r := Compile(prof)
		t1 := time.Now()
		if q == nil {
			fmt.Println("compile failed", r.ErrString())
			continue
		}
		ValidateCompiled(q, data)
		t2 := time.Now()
		_, d1 := c01Graph("q1")
		ValidateCompiled(q, d1)
		t3 := time.Now()
		fmt.Printf("n=%d compile=%v eval(tt3)=%v eval(q1)=%v\n", n, t1.Sub(t0), t2.Sub(t1), t3.Sub(t2))
	}
}
