//go:build verif

package verifx

import (
	"fmt"
	"time"
)

// Bench prints a few timings (development aid: `vworker bench`).
func Bench() {
	fs := PropFormulas(2, []int{1, 2, 3}, 3)
	g, data := c01Graph("tt3")
	_ = g
	for _, n := range []int{1, 8, 32} {
		prof := c01Profile(fs[1000 : 1000+n])
		t0 := time.Now()
		q, r := Compile(prof)
		t1 := time.Now()
		if q == nil {
			fmt.Println("compile failed", r.ErrString())
			continue
		}
		ValidateCompiled(q, data)
		t2 := time.Now()
		_, d1 := c01Graph("q1")
		ValidateCompiled(q, d1)
		t3 := time.Now()
		fmt.Printf("n=%d compile=%v eval(tt3)=%v eval(q1)=%v\n", n, t1.Sub(t0), t2.Sub(t1), t3.Sub(t2))
	}
}
