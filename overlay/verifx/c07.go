//go:build verif

package verifx

import (
	"fmt"
	"strings"
	"time"
)

// C07 — every well-formed declarative profile compiles.

type c07Case struct {
	Axis    string `json:"axis"`
	Desc    string `json:"desc"`
	Profile string `json:"profile"`
}

// c07Kinds: every documented atomic constraint kind as (name, constraint map).
func c07Kinds() []struct {
	name string
	c    *YMap
} {
	return []struct {
		name string
		c    *YMap
	}{
		{"minCount", M("minCount", 1)}, {"maxCount", M("maxCount", 2)}, {"exactCount", M("exactCount", 1)},
		{"minLength", M("minLength", 2)}, {"maxLength", M("maxLength", 5)}, {"exactLength", M("exactLength", 3)},
		{"pattern", M("pattern", "^a.*$")}, {"in", M("in", []any{"a", "b", 3, true})},
		{"containsAll", M("containsAll", strs("a"))}, {"containsSome", M("containsSome", strs("a", "b"))},
		{"uniqueValues", M("uniqueValues", true)},
		{"datatype-string", M("datatype", "xsd.string")}, {"datatype-integer", M("datatype", "xsd.integer")}, {"datatype-float", M("datatype", "xsd.float")}, {"datatype-boolean", M("datatype", "xsd.boolean")},
		{"minInclusive", M("minInclusive", 1)}, {"maxInclusive", M("maxInclusive", 5)}, {"minExclusive", M("minExclusive", 1.5)}, {"maxExclusive", M("maxExclusive", 10)},
		{"lessThanProperty", M("lessThanProperty", "ex.q")}, {"lessThanOrEqualsToProperty", M("lessThanOrEqualsToProperty", "ex.q")},
		{"equalsToProperty", M("equalsToProperty", "ex.q")}, {"disjointWithProperty", M("disjointWithProperty", "ex.q")},
		{"pattern-backtick", M("pattern", "^a`b$")}, {"pattern-quotes", M("pattern", "^\"a'b\"$")}, {"pattern-backslash", M("pattern", `^\d+\\x$`)}, {"pattern-dollar-message", M("pattern", "^$message$")},
		{"all-counts-together", M("minCount", 1, "maxCount", 3, "minLength", 1, "maxLength", 9, "pattern", "a", "in", strs("a"))},
	}
}

var c07Atom = M("propertyConstraints", M("ex.p4", M("minCount", 1)))

func c07Quant(kind int, inner *YMap) *YMap {
	switch kind % 3 {
	case 0:
		return M("nested", inner)
	case 1:
		return M("atLeast", M("count", 1, "validation", inner))
	default:
		return M("atMost", M("count", 2, "validation", inner))
	}
}

func c07Prof(vals *YMap, levels map[string][]any) string {
	top := M("profile", "c07", "prefixes", M("ex", EX))
	for _, lv := range []string{"violation", "warning", "info"} {
		if len(levels[lv]) > 0 {
			top.Set(lv, levels[lv])
		}
	}
	top.Set("validations", vals)
	return EmitYAML(top)
}

func c07One(body *YMap) string {
	v := M("message", "m", "targetClass", "ex.T")
	for i, k := range body.Keys {
		v.Set(k, body.Vals[i])
	}
	return c07Prof(M("v", v), map[string][]any{"violation": strs("v")})
}

// ordered rooted trees with n nodes, as nested child lists
type c07Tree struct{ kids []*c07Tree }

func c07Trees(n int) []*c07Tree {
	if n == 1 {
		return []*c07Tree{{}}
	}
	// forests of n-1 nodes as ordered sequences of trees
	var forests func(m int) [][]*c07Tree
	forests = func(m int) [][]*c07Tree {
		if m == 0 {
			return [][]*c07Tree{nil}
		}
		var out [][]*c07Tree
		for first := 1; first <= m; first++ {
			for _, t := range c07Trees(first) {
				for _, rest := range forests(m - first) {
					out = append(out, append([]*c07Tree{t}, rest...))
				}
			}
		}
		return out
	}
	var out []*c07Tree
	for _, f := range forests(n - 1) {
		out = append(out, &c07Tree{kids: f})
	}
	return out
}

func c07TreeBody(t *c07Tree, kindSeed *int, pathIdx int) *YMap {
	// the node is a quantifier over ex.c<pathIdx>; its inner validation constrains one path per child (+ an atom when it has none)
	inner := M()
	if len(t.kids) == 0 {
		inner.Set("ex.p4", M("minCount", 1))
	}
	for i, k := range t.kids {
		kind := *kindSeed
		*kindSeed++
		inner.Set(fmt.Sprintf("ex.c%d", i+1), c07Quant(kind, c07TreeBodyInner(k, kindSeed)))
	}
	_ = pathIdx
	return M("propertyConstraints", inner)
}

func c07TreeBodyInner(t *c07Tree, kindSeed *int) *YMap { return c07TreeBody(t, kindSeed, 0) }

func init() {
	Register(Meta{
		ID: "C07", Level: "exploration",
		Rule: "axes swept completely to a bound past every size-dependent cliff in the translator (26-entry variable list, `<var>s` plurals, X<n> fallback, counter digits): A1 every documented constraint kind (23 + a combination) and nested/atLeast/atMost x every path AST with <=2 (quick; plus the 3-leaf ones over {p, q, p^} with three kinds) / <=3 (thorough) leaves; A2 q=1..40 quantified sibling constraints under one map for each quantifier kind, and nested+atLeast+atMost on one path; A3 linear quantifier chains of depth 1..7 (quick) / 1..9 (thorough; the engine's compile time grows ~3.6x per level) and every ordered rooted tree of quantifiers with <=5 (quick) / <=6 (thorough) nodes x rotating quantifier kinds; A4 v=1..40 validations in three level distributions; A5 every C01 propositional formula of size <=1 (quick) / <=2 (thorough) under a quantifier preceded by q in {0,10,11,12,25,26,27} quantified siblings (so the formula meets every variable-index cliff). A7 profile names in several scripts and with reserved words. A8 boundary values of constraint arguments: in/containsAll/containsSome lists with 0, 1, 2 (duplicate), 3 and 40 members of every scalar type, count/length bounds 0..10^6, numeric bounds 0/negative/fractional/1e21 and 18 decimal spellings of numbers written verbatim (+5, 25.e-9, .5, 5E-3, +.5e+2, -0.0, ...), empty and one-character patterns, each plain, negated and under a quantifier. A6 every (quick: half of the) ordered pairs of constraint kinds on one property joined by or / if-then / not-and / or inside nested. Oracle: CompileProfile returns no error, and one evaluation on an empty graph and on a small graph returns no error (a policy rejected at first evaluation because generated rules collide is not 'accepted'). Non-trivial = every profile (each is a distinct well-formed program); distinct by text.",
	}, c07Gen, c07Run)
}

func c07Gen(tier string, emit func(c07Case)) {
	// A1
	maxL := 2
	if tier == "thorough" {
		maxL = 3
	}
	var paths []*PExpr
	for l := 1; l <= maxL; l++ {
		paths = append(paths, PathASTs(l, c02Leaves)...)
	}
	for _, p := range paths {
		txt := p.Render()
		pc := M()
		for _, k := range c07Kinds() {
			emit(c07Case{"A1", k.name + " on " + txt, c07One(M("propertyConstraints", M(txt, k.c)))})
			_ = pc
		}
		for q := 0; q < 3; q++ {
			emit(c07Case{"A1", fmt.Sprintf("quantifier %d on %s", q, txt), c07One(M("propertyConstraints", M(txt, c07Quant(q, c07Atom))))})
		}
	}
	if tier != "thorough" {
		// quick: the 3-leaf paths over a forward, a second forward and an inverse step, with a count, a set and a quantified constraint
		for _, p := range PathASTs(3, []*PExpr{PP("ex.p"), PP("ex.q"), PI("ex.p")}) {
			txt := p.Render()
			for _, k := range []struct {
				n string
				c *YMap
			}{{"minCount", M("minCount", 1)}, {"in", M("in", strs("a", "b"))}, {"nested", c07Quant(0, c07Atom)}} {
				emit(c07Case{"A1", k.n + " on " + txt, c07One(M("propertyConstraints", M(txt, k.c)))})
			}
		}
	}
	// A2
	for q := 1; q <= 40; q++ {
		for kind := 0; kind < 4; kind++ {
			pc := M()
			for i := 0; i < q; i++ {
				k := kind
				if kind == 3 {
					k = i
				}
				pc.Set(fmt.Sprintf("ex.c%d", i+1), c07Quant(k, c07Atom))
			}
			emit(c07Case{"A2", fmt.Sprintf("%d quantified siblings kind %d", q, kind), c07One(M("propertyConstraints", pc))})
		}
	}
	for q := 1; q <= 14; q++ {
		pc := M()
		for i := 0; i < q; i++ {
			pc.Set(fmt.Sprintf("ex.c%d", i+1), M("nested", c07Atom, "atLeast", M("count", 1, "validation", c07Atom), "atMost", M("count", 3, "validation", c07Atom), "minCount", 1))
		}
		emit(c07Case{"A2", fmt.Sprintf("%d paths each with nested+atLeast+atMost", q), c07One(M("propertyConstraints", pc))})
	}
	// A3 chains (compile time of the engine grows ~3.6x per nesting level: depth 8 = 4 s, 10 = 48 s, so depth is
	// swept to 7/9 only; the variable-index cliffs are reached through siblings in A2/A5 instead)
	maxD := 7
	if tier == "thorough" {
		maxD = 9
	}
	for d := 1; d <= maxD; d++ {
		for kind := 0; kind < 4; kind++ {
			body := c07Atom
			for i := 0; i < d; i++ {
				k := kind
				if kind == 3 {
					k = i
				}
				body = M("propertyConstraints", M("ex.c", c07Quant(k, body)))
			}
			emit(c07Case{"A3", fmt.Sprintf("quantifier chain depth %d kind %d", d, kind), c07One(body)})
		}
	}
	maxN := 5
	if tier == "thorough" {
		maxN = 6
	}
	for n := 1; n <= maxN; n++ {
		for ti, t := range c07Trees(n) {
			for seed := 0; seed < 3; seed++ {
				s := seed
				body := M("propertyConstraints", M("ex.c", c07Quant(seed, c07TreeBody(t, &s, 0))))
				emit(c07Case{"A3", fmt.Sprintf("quantifier tree n=%d #%d seed %d", n, ti, seed), c07One(body)})
			}
		}
	}
	// A4
	for v := 1; v <= 40; v++ {
		for dist := 0; dist < 3; dist++ {
			vals := M()
			levels := map[string][]any{}
			lv := []string{"violation", "warning", "info"}
			for i := 0; i < v; i++ {
				name := fmt.Sprintf("validation-%d", i+1)
				body := M("message", fmt.Sprintf("m%d", i), "targetClass", "ex.T", "propertyConstraints", M(fmt.Sprintf("ex.p%d", i%5+1), M("minCount", 1), "ex.c", c07Quant(i, c07Atom)))
				vals.Set(name, body)
				switch dist {
				case 0:
					levels["violation"] = append(levels["violation"], name)
				case 1:
					levels[lv[i%3]] = append(levels[lv[i%3]], name)
				case 2:
					levels[lv[i%3]] = append(levels[lv[i%3]], name)
					levels[lv[(i+1)%3]] = append(levels[lv[(i+1)%3]], name)
				}
			}
			emit(c07Case{"A4", fmt.Sprintf("%d validations distribution %d", v, dist), c07Prof(vals, levels)})
		}
	}
	// A6: every ordered pair of constraint kinds on the same property, combined by or / if-then / not-and / nested-or
	// (two constraints of any kinds must be able to share one generated rule body)
	kinds := c07Kinds()
	for i, k1 := range kinds {
		for j, k2 := range kinds {
			if tier != "thorough" && (i+j)%2 == 1 && i != j {
				continue
			}
			a := M("propertyConstraints", M("ex.p", k1.c))
			b := M("propertyConstraints", M("ex.p", k2.c))
			shapes := []*YMap{
				M("or", []any{a, b}),
				M("if", a, "then", b),
				M("not", M("and", []any{a, b})),
				M("propertyConstraints", M("ex.c", M("nested", M("or", []any{a, b})))),
			}
			for si, sh := range shapes {
				emit(c07Case{"A6", fmt.Sprintf("%s and %s in shape %d", k1.name, k2.name, si), c07One(sh)})
			}
		}
	}
	// A8: boundary values of constraint arguments — list constraints with 0, 1, 2 (duplicate), 3 and 40 members of each
	// scalar type, numeric bounds 0 / negative / fractional / large, empty and one-character patterns; each plain, under
	// `not`, and inside a quantifier
	{
		long := []any{}
		for i := 0; i < 40; i++ {
			long = append(long, fmt.Sprintf("v%d", i))
		}
		lists := []struct {
			name string
			l    []any
		}{{"empty", []any{}}, {"one string", []any{"a"}}, {"duplicate", []any{"a", "a"}}, {"three", []any{"a", "b", "c"}}, {"forty", long}, {"one int", []any{1}}, {"one float", []any{1.5}}, {"one bool", []any{true}},
			{"mixed", []any{"a", 1, true, 2.5}}, {"empty string", []any{YQ("")}}, {"with space", []any{"a b"}}, {"zero and false", []any{0, false}}, {"negative", []any{-1, -2.5}}}
		var cons []struct {
			name string
			c    *YMap
		}
		add := func(name string, c *YMap) {
			cons = append(cons, struct {
				name string
				c    *YMap
			}{name, c})
		}
		for _, k := range []string{"in", "containsAll", "containsSome"} {
			for _, l := range lists {
				add(k+" "+l.name, M(k, l.l))
			}
		}
		for _, k := range []string{"minCount", "maxCount", "exactCount", "minLength", "maxLength", "exactLength"} {
			for _, n := range []int{0, 1, 100, 1000000} {
				add(fmt.Sprintf("%s %d", k, n), M(k, n))
			}
		}
		for _, k := range []string{"minInclusive", "maxInclusive", "minExclusive", "maxExclusive"} {
			for _, n := range []any{0, -1, -1.5, 0.0, 1000000, 1e21, 0.000001} {
				add(fmt.Sprintf("%s %v", k, n), M(k, n))
			}
		}
		for _, pat := range []string{"", ".", "^$", "a|b", "[a-z]{2,3}", "\\d+"} {
			add(fmt.Sprintf("pattern %q", pat), M("pattern", YQ(pat)))
		}
		// numbers as YAML lets one spell them (the bound reaches the generated code through a formatter, or verbatim)
		for _, k := range []string{"minInclusive", "maxExclusive"} {
			for _, lit := range []string{"+5", "-5", "+40.7127837", "40.7127837", "0.0000005", "+0.0000005", "25.e-9", "5.", ".5", "-.5", "5e3", "5E-3", "+.5e+2", "2.5e-07", "-0", "-0.0", "1e21", "123456789012345678"} {
				add(fmt.Sprintf("%s %s (as written)", k, lit), M(k, YRaw(lit)))
			}
		}
		for _, k := range []string{"minCount", "maxLength"} {
			// (hexadecimal, octal and underscore-grouped integers are YAML, but not the decimal numbers of the profile
			// dialect: the profile parser rejects them with an error, which is not a translation failure)
			for _, lit := range []string{"+5", "00", "007"} {
				add(fmt.Sprintf("%s %s (as written)", k, lit), M(k, YRaw(lit)))
			}
		}
		add("uniqueValues false", M("uniqueValues", false))
		for _, cn := range cons {
			body := M("propertyConstraints", M("ex.p1", cn.c))
			emit(c07Case{"A8", cn.name, c07One(body)})
			emit(c07Case{"A8", "not " + cn.name, c07One(M("not", body))})
			emit(c07Case{"A8", "nested " + cn.name, c07One(M("propertyConstraints", M("ex.c", M("nested", body))))})
		}
	}
	// A7: the profile name only feeds a generated package name; any name must do
	for _, name := range []string{"a", "A b", "1 starts with a digit", "Política de APIs públicas", "API-Richtlinien für Zahlungen", "プロファイル 1", "Правила API", "___", "-", "a/b\\c", "name with. dots.and:colons", "ÀÉÎ", "é combining", "tab\tin name", "package", "default", "data", "input", "with", "not", "😀", strings.Repeat("long name ", 30)} {
		top := M("profile", YQ(name), "prefixes", M("ex", EX), "violation", strs("v"), "validations", M("v", M("message", "m", "targetClass", "ex.T", "propertyConstraints", M("ex.p1", M("minCount", 1)))))
		emit(c07Case{"A7", fmt.Sprintf("profile name %q", name), EmitYAML(top)})
	}
	// A5
	maxS := 1
	if tier == "thorough" {
		maxS = 2
	}
	var forms []*F
	for s := 0; s <= maxS; s++ {
		forms = append(forms, PropFormulas(s, []int{1, 2, 3}, 3)...)
	}
	for _, q := range []int{0, 10, 11, 12, 25, 26, 27} {
		for fi, f := range forms {
			if q > 12 && fi%4 != 0 && tier != "thorough" {
				continue
			}
			// q sibling quantified constraints come first (they take the first q quantified variables), then the
			// formula under one more quantifier: its variable has index q+1
			pc := M()
			for i := 0; i < q; i++ {
				pc.Set(fmt.Sprintf("ex.c%d", i+1), c07Quant(i, c07Atom))
			}
			pc.Set("ex.c", M("nested", f.Body()))
			emit(c07Case{"A5", fmt.Sprintf("%s under a quantifier preceded by %d quantified siblings", f, q), c07One(M("propertyConstraints", pc))})
		}
	}
}

var c07Small string

func c07Run(c *Ctx, cs c07Case) {
	if c07Small == "" {
		g := &Graph{}
		g.Add(nid(0), EX+"T").P(EX+"p1", "a").P(EX+"p", "a", "b").P(EX+"q", "b").P(EX+"c", Ref(EX+"c0")).P(EX+"c1", Ref(EX+"c0"))
		g.Add(nid(1), EX+"T")
		g.Add(EX+"c0", EX+"C").P(EX+"p4", "x").P(EX+"c", Ref(EX+"c0"))
		c07Small = g.FlatJSONLD()
	}
	t0 := time.Now()
	defer func() {
		if d := time.Since(t0); d > 3*time.Second {
			c.Note(fmt.Sprintf("slow case %.1fs: %s %s", d.Seconds(), cs.Axis, cs.Desc))
		}
	}()
	q, r := Compile(cs.Profile)
	c.Eval(1)
	c.Nontrivial(cs.Profile)
	shape := cs.Desc
	if i := strings.Index(shape, " on "); i > 0 && cs.Axis == "A1" {
		shape = shape[:i]
	}
	if r.Panic != nil {
		c.Violate("C07 panic while compiling a well-formed profile at "+r.Panic.Sig(), cs.Desc+"\n"+r.Panic.Value+"\n"+tailStr(cs.Profile, 1500), nil)
		return
	}
	if q == nil || r.Err != nil {
		msg := strings.ReplaceAll(firstLine(strings.Join(strings.Fields(r.Err.Error()), " ")), ".rego:", ".rego ")
		// strip line numbers so that one defect is one signature
		var b strings.Builder
		for _, ch := range msg {
			if ch >= '0' && ch <= '9' {
				continue
			}
			b.WriteRune(ch)
		}
		c.Violate("C07 well-formed profile rejected ["+cs.Axis+"]: "+tailStr(b.String(), 110), fmt.Sprintf("%s\nerror: %v\nprofile:\n%s", cs.Desc, r.Err, tailStr(cs.Profile, 2500)), nil)
		c.Outcome(cs.Axis + " rejected")
		return
	}
	for _, d := range []string{`{}`, c07Small} {
		rr := ValidateCompiled(q, d)
		c.Eval(1)
		if rr.Panic != nil || rr.Err != nil {
			c.Violate("C07 compiled policy fails at first evaluation ["+cs.Axis+"]: "+firstLine(rr.ErrString()), fmt.Sprintf("%s\nprofile:\n%s", cs.Desc, tailStr(cs.Profile, 2500)), nil)
			c.Outcome(cs.Axis + " eval-conflict")
			return
		}
	}
	c.Outcome(cs.Axis + " accepted")
	c.Sample(map[string]any{"axis": cs.Axis, "desc": cs.Desc})
}
