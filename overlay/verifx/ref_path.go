//go:build verif

package verifx

import (
	"fmt"
	"sort"
	"strings"
)

// PExpr is the reference AST of a property path.
//
//	Kind "pred": Pred = compact IRI "ex.p"; Inv = follows it backwards
//	Kind "type": @type
//	Kind "seq":  Kids composed left to right
//	Kind "alt":  union of Kids
type PExpr struct {
	Kind string   `json:"k"`
	Pred string   `json:"p,omitempty"`
	Inv  bool     `json:"i,omitempty"`
	Kids []*PExpr `json:"c,omitempty"`
}

func PP(pred string) *PExpr { return &PExpr{Kind: "pred", Pred: pred} }
func PI(pred string) *PExpr { return &PExpr{Kind: "pred", Pred: pred, Inv: true} }
func PT() *PExpr            { return &PExpr{Kind: "type"} }
func PS(k ...*PExpr) *PExpr { return &PExpr{Kind: "seq", Kids: k} }
func PA(k ...*PExpr) *PExpr { return &PExpr{Kind: "alt", Kids: k} }
func (p *PExpr) Leaves() int {
	if len(p.Kids) == 0 {
		return 1
	}
	n := 0
	for _, k := range p.Kids {
		n += k.Leaves()
	}
	return n
}

func (p *PExpr) HasInverse() bool {
	if p.Inv {
		return true
	}
	for _, k := range p.Kids {
		if k.HasInverse() {
			return true
		}
	}
	return false
}

// Render writes the path in the documented concrete syntax, canonical layout
// (single blanks around operators), parenthesising exactly where the grammar
// requires it: a sequence or an alternative nested in an alternative, and a
// sequence nested in a sequence (to keep the AST), get parentheses.
func (p *PExpr) Render() string { return p.render(0) }

// ctx: 0 top, 1 operand of seq, 2 operand of alt
func (p *PExpr) render(ctx int) string {
	switch p.Kind {
	case "pred":
		if p.Inv {
			return p.Pred + "^"
		}
		return p.Pred
	case "type":
		return "@type"
	case "seq":
		parts := make([]string, len(p.Kids))
		for i, k := range p.Kids {
			parts[i] = k.render(1)
		}
		s := strings.Join(parts, " / ")
		if ctx != 0 {
			return "(" + s + ")"
		}
		return s
	case "alt":
		parts := make([]string, len(p.Kids))
		for i, k := range p.Kids {
			parts[i] = k.render(2)
		}
		s := strings.Join(parts, " | ")
		if ctx == 2 {
			return "(" + s + ")"
		}
		return s
	}
	panic("bad path kind " + p.Kind)
}

// Shape is the canonical s-expression comparable with PathShape of the
// implementation's AST (sequences and alternatives keep their nesting).
func (p *PExpr) Shape() string {
	switch p.Kind {
	case "pred":
		if p.Inv {
			return "I(" + p.Pred + ")"
		}
		return "P(" + p.Pred + ")"
	case "type":
		return "P(@type)"
	case "seq", "alt":
		parts := make([]string, len(p.Kids))
		for i, k := range p.Kids {
			parts[i] = k.Shape()
		}
		if p.Kind == "seq" {
			return "S[" + strings.Join(parts, " ") + "]"
		}
		return "A[" + strings.Join(parts, " ") + "]"
	}
	return "?"
}

// PVal is a value reached by a path: a node (IsNode, ID) or a literal (Lit,
// rendered by the documented as_string rule).
type PVal struct {
	IsNode bool
	ID     string
	Lit    string
}

func (v PVal) Key() string {
	if v.IsNode {
		return "N:" + v.ID
	}
	return "L:" + v.Lit
}

func litString(x any) string {
	switch t := x.(type) {
	case string:
		return t
	case bool:
		return fmt.Sprint(t)
	case int:
		return fmt.Sprint(t)
	case int64:
		return fmt.Sprint(t)
	case float64:
		return fmt.Sprint(t)
	}
	return fmt.Sprint(x)
}

func expandCompact(c string) string {
	// only the private namespace is used in enumerations
	if strings.HasPrefix(c, "ex.") {
		return EX + strings.ReplaceAll(c[3:], `\/`, "/")
	}
	return c
}

// Denote returns the path's denotation from the given start values as a set.
func (p *PExpr) Denote(g *Graph, from map[string]PVal) map[string]PVal {
	out := map[string]PVal{}
	switch p.Kind {
	case "pred":
		iri := expandCompact(p.Pred)
		if !p.Inv {
			for _, v := range from {
				if !v.IsNode {
					continue // a literal has no properties
				}
				n := g.Node(v.ID)
				if n == nil {
					continue
				}
				for _, x := range n.Get(iri) {
					var pv PVal
					if r, ok := x.(Ref); ok {
						pv = PVal{IsNode: true, ID: string(r)}
					} else {
						pv = PVal{Lit: litString(x)}
					}
					out[pv.Key()] = pv
				}
			}
		} else {
			for _, v := range from {
				if !v.IsNode {
					continue
				}
				for _, s := range g.Nodes {
					for _, x := range s.Get(iri) {
						if r, ok := x.(Ref); ok && string(r) == v.ID {
							pv := PVal{IsNode: true, ID: s.ID}
							out[pv.Key()] = pv
						}
					}
				}
			}
		}
	case "type":
		for _, v := range from {
			if !v.IsNode {
				continue
			}
			if n := g.Node(v.ID); n != nil {
				for _, t := range n.Types {
					pv := PVal{Lit: t}
					out[pv.Key()] = pv
				}
			}
		}
	case "seq":
		cur := from
		for _, k := range p.Kids {
			cur = k.Denote(g, cur)
		}
		return cur
	case "alt":
		for _, k := range p.Kids {
			for key, v := range k.Denote(g, from) {
				out[key] = v
			}
		}
	}
	return out
}

// DenoteFrom is Denote from one focus node.
func (p *PExpr) DenoteFrom(g *Graph, id string) map[string]PVal {
	return p.Denote(g, map[string]PVal{"N:" + id: {IsNode: true, ID: id}})
}

// ValueStrings renders a denotation by the documented as_string rule (node ->
// its @id), as a sorted list.
func ValueStrings(d map[string]PVal) []string {
	set := map[string]bool{}
	for _, v := range d {
		if v.IsNode {
			set[v.ID] = true
		} else {
			set[v.Lit] = true
		}
	}
	out := sortedKeys(set)
	sort.Strings(out)
	return out
}

// NodeIDs returns the ids of the nodes in a denotation that exist in the graph.
func NodeIDs(g *Graph, d map[string]PVal) []string {
	set := map[string]bool{}
	for _, v := range d {
		if v.IsNode && g.Node(v.ID) != nil {
			set[v.ID] = true
		}
	}
	return sortedKeys(set)
}

// DenoteTagged is Denote with every result tagged by whether the leaf step
// that produced it was an inverse step. It models one recorded defect (the
// implementation represents a node reached by an inverse final step as the
// node object and one reached by a forward final step as a link object, so the
// same node reached both ways is two set members); it is used only to give
// that defect a narrow signature, never to accept a result.
func (p *PExpr) DenoteTagged(g *Graph, from map[string]PVal) map[string]PVal {
	out := map[string]PVal{}
	switch p.Kind {
	case "pred", "type":
		tag := "F:"
		if p.Inv {
			tag = "I:"
		}
		for _, v := range p.Denote(g, from) {
			out[tag+v.Key()] = v
		}
	case "seq":
		cur := from
		for i, k := range p.Kids {
			if i == len(p.Kids)-1 {
				return k.DenoteTagged(g, cur)
			}
			cur = k.Denote(g, cur)
		}
	case "alt":
		for _, k := range p.Kids {
			for key, v := range k.DenoteTagged(g, from) {
				out[key] = v
			}
		}
	}
	return out
}
