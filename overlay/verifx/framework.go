//go:build verif

// Package verifx is the worker-side verification engine. It is mapped into the
// repository module by `go build -overlay` (never committed to /repo), so it can
// import the repository's internal packages and is rebuilt from /repo's working
// tree on every check run.
package verifx

import (
	"encoding/json"
	"fmt"
	"hash/fnv"
	"os"
	"regexp"
	"runtime"
	"runtime/debug"
	"sort"
	"strings"
	"sync"
	"time"
)

// Violation is one failing case. Sig is a narrow signature used for matching
// known findings; Case is the replayable case (JSON of the check's case type).
type Violation struct {
	Sig    string          `json:"sig"`
	Detail string          `json:"detail"`
	Case   json.RawMessage `json:"case"`
	// where in the enumeration it was found: lets the driver re-run the same shard up to this case when the case
	// alone does not reproduce (behaviour that depends on what the process did before)
	Shard   int   `json:"shard"`
	From    int64 `json:"from"` // case index at which the worker process that found it started (a process restarted after a hang or crash does not start at 0)
	NShards int   `json:"nshards"`
	Idx     int64 `json:"idx"`
}

// Ctx accumulates what a worker covered.
type Ctx struct {
	mu         sync.Mutex
	Tier       string
	Seed       int64
	evals      int64
	nontriv    map[uint64]struct{}
	outcomes   map[string]int64
	counters   map[string]int64
	violations []Violation
	vioSeen    map[string]int
	samples    []any
	notes      []string
	curCase    json.RawMessage
	capHit     bool
	deadline   time.Time
	from       int64
	shard, n   int
	curIdx     int64
}

func newCtx(tier string) *Ctx {
	return &Ctx{Tier: tier, nontriv: map[uint64]struct{}{}, outcomes: map[string]int64{}, counters: map[string]int64{}, vioSeen: map[string]int{}}
}

func h64(s string) uint64 { h := fnv.New64a(); h.Write([]byte(s)); return h.Sum64() }

// Eval counts n executed evaluations.
func (c *Ctx) Eval(n int) { c.mu.Lock(); c.evals += int64(n); c.mu.Unlock() }

// Nontrivial records a distinct non-trivial case by key.
func (c *Ctx) Nontrivial(key string) { c.mu.Lock(); c.nontriv[h64(key)] = struct{}{}; c.mu.Unlock() }

// Outcome records a distinct observed outcome class.
func (c *Ctx) Outcome(key string) { c.mu.Lock(); c.outcomes[key]++; c.mu.Unlock() }

// Count adds to a named counter (states, transitions, ...).
func (c *Ctx) Count(name string, n int64) { c.mu.Lock(); c.counters[name] += n; c.mu.Unlock() }

// Max keeps the maximum for a named counter (key is prefixed "max:" for merging).
func (c *Ctx) Max(name string, n int64) {
	c.mu.Lock()
	if c.counters["max:"+name] < n {
		c.counters["max:"+name] = n
	}
	c.mu.Unlock()
}

func (c *Ctx) Note(s string) {
	c.mu.Lock()
	if len(c.notes) < 40 {
		c.notes = append(c.notes, s)
	}
	c.mu.Unlock()
}

// Sample keeps up to 6 written-out cases.
func (c *Ctx) Sample(x any) {
	c.mu.Lock()
	if len(c.samples) < 6 {
		c.samples = append(c.samples, x)
	}
	c.mu.Unlock()
}

// CapHit marks the run as not exhaustive.
func (c *Ctx) CapHit(why string) { c.mu.Lock(); c.capHit = true; c.mu.Unlock(); c.Note("cap: " + why) }

// Expired reports whether the worker's soft deadline has passed (checks that
// honour it stop enumerating and the run is marked exhaustive:false).
func (c *Ctx) Expired() bool { return !c.deadline.IsZero() && time.Now().After(c.deadline) }

// Violate records a violation for the current case (or for an explicit case).
// At most 3 violations are kept per signature and worker; all are counted.
func (c *Ctx) Violate(sig, detail string, cs any) {
	c.mu.Lock()
	defer c.mu.Unlock()
	c.vioSeen[sig]++
	if c.vioSeen[sig] > 3 {
		return
	}
	raw := c.curCase
	if cs != nil {
		raw, _ = json.Marshal(cs)
	}
	if len(detail) > 4000 {
		detail = detail[:4000] + "…"
	}
	c.violations = append(c.violations, Violation{Sig: sig, Detail: detail, Case: raw, Shard: c.shard, NShards: c.n, Idx: c.curIdx, From: c.from})
}

// ---- registry ------------------------------------------------------------

type Meta struct {
	LongCases bool `json:"long_cases,omitempty"` // a case is a whole search partition: the per-case watchdog does not apply (the soft deadline does)
	// HangIsViolation: the property promises that the call returns (a report or an error). A case that exceeds the
	// watchdog while a goroutine has been parked for more than a minute in a lock/channel wait inside the library, with
	// no goroutine running, is then a violation ("[hang]"), not merely a skipped case.
	HangIsViolation bool     `json:"hang_is_violation,omitempty"`
	ID              string   `json:"id"`
	Level           string   `json:"level"` // exploration | model_checking
	Rule            string   `json:"rule"`
	Assumptions     []string `json:"assumptions"`
}

type checkDef struct {
	meta   Meta
	gen    func(tier string, emit func(any))
	run    func(c *Ctx, cs any)
	decode func(raw json.RawMessage) (any, error)
}

var registry = map[string]*checkDef{}

// Register adds a check whose cases have type T.
func Register[T any](meta Meta, gen func(tier string, emit func(T)), run func(c *Ctx, cs T)) {
	registry[meta.ID] = &checkDef{
		meta: meta,
		gen: func(tier string, emit func(any)) {
			gen(tier, func(t T) { emit(t) })
		},
		run: func(c *Ctx, cs any) { run(c, cs.(T)) },
		decode: func(raw json.RawMessage) (any, error) {
			var t T
			err := json.Unmarshal(raw, &t)
			return t, err
		},
	}
}

// ---- worker output ---------------------------------------------------------

type WorkerOut struct {
	Meta       Meta             `json:"meta"`
	Tier       string           `json:"tier"`
	Shard      int              `json:"shard"`
	NShards    int              `json:"nshards"`
	Cases      int64            `json:"cases"`
	Evals      int64            `json:"evals"`
	Nontrivial int64            `json:"nontrivial"`
	Outcomes   map[string]int64 `json:"outcomes"`
	Counters   map[string]int64 `json:"counters"`
	Violations []Violation      `json:"violations"`
	VioCounts  map[string]int   `json:"vio_counts"`
	Samples    []any            `json:"samples"`
	Notes      []string         `json:"notes"`
	CapHit     bool             `json:"cap_hit"`
	Done       bool             `json:"done"`
	HangAt     int64            `json:"hang_at"`               // case index that exceeded the watchdog, -1 if none
	HangFrame  string           `json:"hang_frame,omitempty"`  // library function a goroutine has been parked in for > 1 minute (empty: busy or not in the library)
	HangStacks string           `json:"hang_stacks,omitempty"` // goroutine dump taken by the watchdog
	LastIdx    int64            `json:"last_idx"`
}

func (c *Ctx) snapshot(meta Meta, shard, n int, cases, last int64, done bool, hang int64) WorkerOut {
	c.mu.Lock()
	defer c.mu.Unlock()
	oc := map[string]int64{}
	// keep the outcome table bounded
	keys := make([]string, 0, len(c.outcomes))
	for k := range c.outcomes {
		keys = append(keys, k)
	}
	sort.Strings(keys)
	for i, k := range keys {
		if i < 400 {
			oc[k] = c.outcomes[k]
		}
	}
	cn := map[string]int64{}
	for k, v := range c.counters {
		cn[k] = v
	}
	cn["distinct_outcomes"] = int64(len(c.outcomes))
	return WorkerOut{Meta: meta, Tier: c.Tier, Shard: shard, NShards: n, Cases: cases, Evals: c.evals,
		Nontrivial: int64(len(c.nontriv)), Outcomes: oc, Counters: cn, Violations: c.violations,
		VioCounts: c.vioSeen, Samples: c.samples, Notes: c.notes, CapHit: c.capHit, Done: done, HangAt: hang, LastIdx: last}
}

func writeOut(path string, o WorkerOut) {
	b, _ := json.Marshal(o)
	tmp := path + ".tmp"
	os.WriteFile(tmp, b, 0o644)
	os.Rename(tmp, path)
}

// WatchdogSeconds is the per-case limit (≈10^4 × a typical case).
var WatchdogSeconds = 90

// Main is the worker entry point:
//
//	vworker run <ID> <tier> <shard> <nshards> <from> <outfile>
//	vworker replay <ID> <tier> <replayfile>      (exit 0 = case passes, 1 = violates, prints sigs)
//	vworker list
func Main(args []string) int {
	if len(args) < 1 {
		fmt.Fprintln(os.Stderr, "usage: vworker run|replay|list ...")
		return 2
	}
	switch args[0] {
	case "bench":
		Bench()
		return 0
	case "c06once":
		// one call in a fresh process: prints the outcome of Validate(profile p, data d) of the history pass
		var p, d int
		fmt.Sscan(args[1], &p)
		fmt.Sscan(args[2], &d)
		fmt.Print(C06Once(p, d))
		return 0
	case "c06gen":
		var p, n int
		fmt.Sscan(args[1], &p)
		fmt.Sscan(args[2], &n)
		fmt.Print(C06Gen(p, n))
		return 0
	case "c09once":
		var p, l int
		fmt.Sscan(args[1], &p)
		fmt.Sscan(args[2], &l)
		fmt.Print(C09ConfOnce(p, l))
		return 0
	case "racepass":
		rounds := 4
		if len(args) > 1 {
			fmt.Sscan(args[1], &rounds)
		}
		RacePass(rounds)
		return 0
	case "count":
		// count ID tier: number of cases the generator emits, grouped by the case's kind/family field (development aid)
		def := registry[args[1]]
		if def == nil {
			fmt.Fprintln(os.Stderr, "unknown check", args[1])
			return 2
		}
		per := map[string]int64{}
		var total int64
		def.gen(args[2], func(cs any) {
			total++
			raw, _ := json.Marshal(cs)
			var m map[string]any
			json.Unmarshal(raw, &m)
			k := ""
			for _, f := range []string{"kind", "fam", "family", "axis", "pass", "Kind", "Fam"} {
				if s, ok := m[f].(string); ok {
					k = s
					break
				}
			}
			per[k]++
		})
		fmt.Println(args[1], args[2], "cases:", total, per)
		return 0
	case "list":
		ids := []string{}
		for id := range registry {
			ids = append(ids, id)
		}
		sort.Strings(ids)
		fmt.Println(strings.Join(ids, " "))
		return 0
	case "replay":
		def := registry[args[1]]
		if def == nil {
			fmt.Fprintln(os.Stderr, "unknown check", args[1])
			return 2
		}
		raw, err := os.ReadFile(args[3])
		if err != nil {
			fmt.Fprintln(os.Stderr, err)
			return 2
		}
		var rf struct {
			Case json.RawMessage `json:"case"`
		}
		if err := json.Unmarshal(raw, &rf); err != nil || rf.Case == nil {
			fmt.Fprintln(os.Stderr, "bad replay file")
			return 2
		}
		cs, err := def.decode(rf.Case)
		if err != nil {
			fmt.Fprintln(os.Stderr, "bad case:", err)
			return 2
		}
		c := newCtx(args[2])
		c.curCase = rf.Case
		if !def.meta.LongCases {
			go func() {
				time.Sleep(20 * time.Second)
				runtime.GC() // stamps the wait time of parked goroutines (see the run mode's watchdog)
				time.Sleep(time.Duration(WatchdogSeconds-20) * time.Second)
				st := allStacks()
				out, _ := json.Marshal(map[string]any{"hang": true, "hang_frame": blockedInLibrary(st), "stacks": st})
				fmt.Println(string(out))
				os.Exit(3)
			}()
		}
		if !runCase(def, c, cs) {
			return 2
		}
		sigs := []string{}
		for s := range c.vioSeen {
			sigs = append(sigs, s)
		}
		sort.Strings(sigs)
		out, _ := json.Marshal(map[string]any{"sigs": sigs, "violations": c.violations})
		fmt.Println(string(out))
		if len(sigs) > 0 {
			return 1
		}
		return 0
	case "run":
		if len(args) < 7 {
			fmt.Fprintln(os.Stderr, "usage: vworker run ID tier shard nshards from outfile")
			return 2
		}
		def := registry[args[1]]
		if def == nil {
			fmt.Fprintln(os.Stderr, "unknown check", args[1])
			return 2
		}
		var shard, n int
		var from int64
		fmt.Sscan(args[3], &shard)
		fmt.Sscan(args[4], &n)
		fmt.Sscan(args[5], &from)
		out := args[6]
		c := newCtx(args[2])
		c.shard, c.n, c.from = shard, n, from
		upto := int64(-1)
		if s := os.Getenv("VERIF_UPTO"); s != "" {
			fmt.Sscan(s, &upto)
		}
		if s := os.Getenv("VERIF_SEED"); s != "" {
			fmt.Sscan(s, &c.Seed)
		}
		if s := os.Getenv("VERIF_SOFT_DEADLINE_S"); s != "" {
			var sec int
			fmt.Sscan(s, &sec)
			if sec > 0 {
				c.deadline = time.Now().Add(time.Duration(sec) * time.Second)
			}
		}
		var cur, curStart int64 = -1, 0
		var wmu sync.Mutex
		var cases int64
		// watchdog
		go func() {
			gcDone := int64(-1)
			for {
				time.Sleep(time.Second)
				wmu.Lock()
				idx, st := cur, curStart
				wmu.Unlock()
				limit := int64(WatchdogSeconds)
				if def.meta.LongCases {
					limit = 6 * 3600
				}
				if idx >= 0 && idx != gcDone && time.Now().Unix()-st > 20 && !def.meta.LongCases {
					// the runtime stamps the wait time of parked goroutines during a collection: force one early in a
					// long case so that the dump taken at the watchdog limit shows how long each goroutine has been parked
					gcDone = idx
					runtime.GC()
				}
				if idx >= 0 && time.Now().Unix()-st > limit {
					wo := c.snapshot(def.meta, shard, n, cases, idx, false, idx)
					wo.HangStacks = allStacks()
					wo.HangFrame = blockedInLibrary(wo.HangStacks)
					writeOut(out, wo)
					os.Exit(3)
				}
			}
		}()
		var idx int64 = -1
		rot := c.Seed % int64(n)
		if rot < 0 {
			rot += int64(n)
		}
		ok := true
		lastFlush := time.Now()
		def.gen(c.Tier, func(cs any) {
			idx++
			if !ok || idx < from || int((idx+rot)%int64(n)) != shard || (upto >= 0 && idx > upto) {
				return
			}
			if c.Expired() {
				if !c.capHit {
					c.CapHit(fmt.Sprintf("soft deadline reached at case index %d", idx))
				}
				return
			}
			raw, _ := json.Marshal(cs)
			c.mu.Lock()
			c.curCase = raw
			c.curIdx = idx
			c.mu.Unlock()
			// progress record: if the process dies inside the library (a panic on a goroutine the library spawned, a
			// fatal error) the driver learns which case it was
			if pb, err := json.Marshal(map[string]any{"idx": idx, "case": json.RawMessage(raw)}); err == nil {
				os.WriteFile(out+".progress", pb, 0o644)
			}
			wmu.Lock()
			cur, curStart = idx, time.Now().Unix()
			wmu.Unlock()
			if !runCase(def, c, cs) {
				ok = false
			}
			cases++
			wmu.Lock()
			cur = -1
			wmu.Unlock()
			if time.Since(lastFlush) > 5*time.Second {
				writeOut(out, c.snapshot(def.meta, shard, n, cases, idx, false, -1))
				lastFlush = time.Now()
			}
		})
		if !ok {
			writeOut(out, c.snapshot(def.meta, shard, n, cases, idx, false, -1))
			return 2
		}
		writeOut(out, c.snapshot(def.meta, shard, n, cases, idx, true, -1))
		return 0
	}
	fmt.Fprintln(os.Stderr, "unknown command", args[0])
	return 2
}

func allStacks() string {
	buf := make([]byte, 1<<20)
	n := runtime.Stack(buf, true)
	return string(buf[:n])
}

var goroutineHeader = regexp.MustCompile(`^goroutine \d+ \[([^\],]+)(?:, (\d+) minutes)?(?:, locked to thread)?\]:`)

// blockedInLibrary inspects a full goroutine dump taken when a case exceeded the watchdog. It returns the library
// function in which some goroutine has been parked for at least a minute (Go prints the wait time of a blocked
// goroutine in minutes) provided no other goroutine was running or runnable at that moment — i.e. the process was
// waiting, not computing. It returns "" when the case is merely slow (something is running) or when no goroutine is
// parked inside the repository's own packages.
func blockedInLibrary(dump string) string {
	const mod = "github.com/aml-org/amf-custom-validator/"
	blocks := strings.Split(dump, "\n\n")
	frame := ""
	for i, b := range blocks {
		m := goroutineHeader.FindStringSubmatch(b)
		if m == nil {
			continue
		}
		state := m[1]
		if i == 0 {
			continue // the watchdog goroutine itself (the caller of runtime.Stack is printed first)
		}
		if state == "running" || state == "runnable" {
			return ""
		}
		if m[2] == "" || frame != "" {
			continue
		}
		for _, l := range strings.Split(b, "\n") {
			if strings.HasPrefix(l, mod+"internal/") || strings.HasPrefix(l, mod+"pkg/") {
				if j := strings.Index(l, "("); j > 0 {
					l = l[:j]
				}
				frame = strings.TrimPrefix(l, mod)
				break
			}
		}
	}
	return frame
}

// runCase runs one case; a panic that escapes the check's own protected calls
// is a harness bug (broken check), never a violation.
func runCase(def *checkDef, c *Ctx, cs any) (ok bool) {
	defer func() {
		if r := recover(); r != nil {
			fmt.Fprintf(os.Stderr, "HARNESS PANIC in %s: %v\ncase: %s\n%s\n", def.meta.ID, r, c.curCase, debug.Stack())
			ok = false
		}
	}()
	def.run(c, cs)
	if DebugTwinDiff != "" {
		c.Violate(def.meta.ID+" a call and its twin (debug flag / sibling entry point) give different outcomes", DebugTwinDiff, nil)
		DebugTwinDiff = ""
	}
	return true
}
