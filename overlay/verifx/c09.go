//go:build verif

package verifx

import (
	"fmt"
	"os"
	"os/exec"
	"strings"
	"time"

	"github.com/aml-org/amf-custom-validator/pkg/config"
)

// C09 — a precompiled profile is equivalent to its source and is reusable.
// Explicit-state search over histories: a state is (profile, history of
// documents already validated with ONE compiled query); a transition is one
// real call of pkg.ValidateCompiledWithConfiguration on that object.

type c09Case struct {
	Profile int   `json:"profile"`
	Prefix  []int `json:"prefix"`          // first documents of the history
	Depth   int   `json:"depth"`           // total history length explored below this prefix
	Exact   bool  `json:"exact,omitempty"` // run exactly the history in Prefix (size-threshold histories with the huge document)
	Churn   int   `json:"churn,omitempty"` // churn history: profile 0 by text and compiled, then Churn other distinct profile texts, then profile 0 again
	Conf    bool  `json:"conf,omitempty"`  // history letters are (document, configuration) pairs: letter = 4*docIndex + confIndex over c09ConfDocs x c09Confs
}

// configuration histories: the call's clock and report configuration vary from step to step on ONE compiled query
var c09ConfDocs = []int{0, 4, 3} // plain (violations), empty graph (conforming report), lexical (locations)

type c09Conf struct {
	name  string
	clock FixedClock
	rc    config.ReportConfiguration
}

func c09Confs() []c09Conf {
	custom := config.ReportConfiguration{IncludeReportCreationTime: true, ReportSchemaIri: "http://a.ml/custom/report.yaml", LexicalSchemaIri: "http://a.ml/custom/lexical.yaml"}
	noDate := DefaultReportConf()
	noDate.IncludeReportCreationTime = false
	return []c09Conf{
		{"default", Epoch2000, DefaultReportConf()},
		{"custom-schemas", Epoch2000, custom},
		{"no-date", Epoch2000, noDate},
		{"other-clock", FixedClock{time.Date(2021, 3, 4, 5, 6, 7, 0, time.UTC)}, DefaultReportConf()},
	}
}

// C09ConfOnce: the report a FRESH process gives for ValidateWithConfiguration(profile p text, document, configuration)
func C09ConfOnce(p, letter int) string {
	cf := c09Confs()[letter%4]
	r := ValidateConf(c09Profiles()[p], c09Docs()[c09ConfDocs[letter/4]], cf.clock, cf.rc, nil)
	if r.Panic != nil {
		return "PANIC " + r.Panic.Sig()
	}
	if r.Err != nil {
		return "ERR"
	}
	return r.Report
}

var c09ConfFresh = map[[2]int]string{}

func c09ConfRef(p, letter int) string {
	k := [2]int{p, letter}
	if v, ok := c09ConfFresh[k]; ok {
		return v
	}
	exe, err := os.Executable()
	if err != nil {
		panic("harness: " + err.Error())
	}
	out, err := exec.Command(exe, "c09once", fmt.Sprint(p), fmt.Sprint(letter)).Output()
	if err != nil {
		panic("harness: fresh-process reference failed: " + err.Error())
	}
	c09ConfFresh[k] = string(out)
	return string(out)
}

func c09ConfName(letter int) string {
	return c09DocNames[c09ConfDocs[letter/4]] + "/" + c09Confs()[letter%4].name
}

func c09RunConf(c *Ctx, cs c09Case) {
	prof := c09Profiles()[cs.Profile]
	na := 4 * len(c09ConfDocs)
	confs := c09Confs()
	docs := c09Docs()
	name := func(h []int) string {
		var l []string
		for _, x := range h {
			l = append(l, c09ConfName(x))
		}
		return "[" + strings.Join(l, " → ") + "]"
	}
	var hist []int
	runHistory := func(h []int) {
		q, cr := Compile(prof)
		if q == nil {
			c.Violate("C09 profile does not compile: "+firstLine(cr.ErrString()), prof, nil)
			return
		}
		for i, x := range h {
			cf := confs[x%4]
			r := ValidateCompiledConf(q, docs[c09ConfDocs[x/4]], cf.clock, cf.rc, nil)
			c.Eval(1)
			got := r.Report
			if r.Panic != nil {
				got = "PANIC " + r.Panic.Sig()
			} else if r.Err != nil {
				got = "ERR"
			}
			if ref := c09ConfRef(cs.Profile, x); got != ref {
				sig := "C09 report differs from a fresh validation of the same document under the same configuration"
				if i == 0 {
					sig = "C09 precompiled report differs from validating with the profile text under the same configuration"
				}
				c.Violate(sig, fmt.Sprintf("profile %d history of (document/configuration) %s, step %d (earlier histories of this case ran before it in the same process)\n%s", cs.Profile, name(h[:i+1]), i+1, firstDiff(ref, got)), nil)
				return
			}
			c.Outcome("conf " + c09ConfName(x))
		}
	}
	if cs.Exact {
		runHistory(cs.Prefix)
		return
	}
	var rec func()
	n := int64(0)
	rec = func() {
		if len(hist) == cs.Depth {
			runHistory(hist)
			n++
			return
		}
		for x := 0; x < na; x++ {
			hist = append(hist, x)
			rec()
			hist = hist[:len(hist)-1]
		}
	}
	hist = append(hist, cs.Prefix...)
	rec()
	c.Count("states", n)
	c.Count("transitions", n)
	c.Count("traces_validated_against_impl", n)
	c.Nontrivial(fmt.Sprintf("%d/conf/%v", cs.Profile, cs.Prefix))
}

const seedProfileInverse = `profile: seed inverse
prefixes:
  ex: http://ex.org/
violation:
  - inv
validations:
  inv:
    message: "parents of {{ex.p1}}"
    targetClass: ex.C
    propertyConstraints:
      ex.c^ / ex.p1:
        minCount: 1
        in: [v]
`

func c09Profiles() []string {
	return []string{seedProfilePlain, seedProfileNested, seedProfileLevels, c14Profile(), seedProfileInverse}
}

var c09DocCache []string
var c09DocNames = []string{"plain", "nested", "levels", "lexical", "empty-graph", "not-json", "jsonld-error", "large-128", "amf-compact", "huge-600", "two-classes-130-130", "two-classes-170-130", "two-classes-130-170"}

const c09Alphabet = 9 // the search alphabet; the huge document (report > 1 MiB) only occurs in the Exact histories

func c09Docs() []string {
	if c09DocCache == nil {
		s := Seeds()
		huge := &Graph{}
		for i := 0; i < 600; i++ {
			huge.Add(nid(i), EX+"T").P(EX+"p2", "not in the list").P(EX+"name", "n").P(EX+"num", 0)
		}
		two := func(a, b int) string {
			g := &Graph{}
			for i := 0; i < a; i++ {
				n := g.Add(fmt.Sprintf("%sa%d", EX, i), EX+"T")
				if i%2 == 0 {
					n.P(EX+"p1", "v")
				}
			}
			for i := 0; i < b; i++ {
				g.Add(fmt.Sprintf("%sb%d", EX, i), EX+"U").P(EX+"p2", "z")
			}
			return g.FlatJSONLD()
		}
		c09DocCache = []string{s[0].Data, s[1].Data, s[3].Data, s[2].Data, `{}`, `{"@graph":[`, `{"@id":1}`, TruthTableGraph(7, false).FlatJSONLD(), s[5].Data, huge.FlatJSONLD(), two(130, 130), two(170, 130), two(130, 170)}
	}
	return c09DocCache
}

func init() {
	Register(Meta{
		ID: "C09", Level: "model_checking", HangIsViolation: true,
		Rule:        "states = (profile, history) for 5 profiles and every history of length <=K (3 quick, 4 thorough) over a 9-document alphabet (conforming/violating for the profile at hand, nested sub-results, lexical locations, empty graph, two documents that make the call fail, a 128-node document, an AMF-compact document); each maximal history is executed on a freshly compiled query and every step is compared byte-for-byte with (1) a fresh pkg.ValidateWithConfiguration of the profile text on that document and (2) the report the same compiled query gave for that document from the initial state; error-ness must agree. Configuration histories: for 2 profiles, every sequence of 3 letters over {violating, conforming, lexical document} x {default, custom schema IRIs, no dateCreated, another clock} on one compiled query, each step compared with the report a FRESH PROCESS gives for the profile text, that document and that configuration. Churn histories: one profile used by text and compiled, then n other distinct profile texts (n on both sides of every power of two up to 128; thorough 256 and 1025), then the first profile again by text, by the old compiled query and re-compiled. States are not merged (the compiled query exposes no state).",
		Assumptions: []string{"fixed clock through the repository's ValidationConfiguration seam"},
	}, c09Gen, c09Run)
}

func c09Gen(tier string, emit func(c09Case)) {
	depth := 3
	if tier == "thorough" {
		depth = 4 // 9^4 histories per profile (depth 5 = 59 049 compilations per profile does not finish in the budget)
	}
	nd := c09Alphabet
	for p := range c09Profiles() {
		for a := 0; a < nd; a++ {
			for b := 0; b < nd; b++ {
				if depth <= 3 {
					emit(c09Case{Profile: p, Prefix: []int{a, b}, Depth: depth})
					continue
				}
				for d := 0; d < nd; d++ {
					emit(c09Case{Profile: p, Prefix: []int{a, b, d}, Depth: depth}) // 9 histories of length 4 per case
				}
			}
		}
	}
	// configuration histories: every sequence of 3 (document, configuration) letters over 3 documents x 4 configurations
	for _, p := range []int{0, 3} {
		for a := 0; a < 12; a++ {
			emit(c09Case{Profile: p, Prefix: []int{a}, Depth: 3, Conf: true})
		}
	}
	// churn: n other distinct profile texts between two uses of one profile, n around every power of two up to 256
	for _, n := range []int{1, 2, 3, 4, 5, 7, 8, 9, 15, 16, 17, 31, 32, 33, 63, 64, 65, 127, 128, 129, 255, 256, 257} {
		if tier == "thorough" || n <= 129 {
			emit(c09Case{Churn: n})
		}
	}
	if tier == "thorough" {
		emit(c09Case{Churn: 1025})
	}
	// size threshold: a report above 1 MiB somewhere in the history (profiles whose report on it is that large)
	for _, p := range []int{0} {
		for x := 0; x < nd; x++ {
			emit(c09Case{Profile: p, Prefix: []int{9, x, 9, x}, Exact: true})
			emit(c09Case{Profile: p, Prefix: []int{x, 9, x, x}, Exact: true})
		}
		// documents whose per-class node counts cross 128 and grow or shrink from one call to the next
		for _, h := range [][]int{{10, 11, 10, 12}, {11, 10, 12, 11}, {0, 10, 12, 0, 11}, {12, 11, 10, 7, 10}} {
			emit(c09Case{Profile: p, Prefix: h, Exact: true})
		}
	}
}

type c09Ref struct {
	report string
	isErr  bool
}

var c09Fresh = map[int][]c09Ref{}

func c09FreshRefs(c *Ctx, p int) []c09Ref {
	if r, ok := c09Fresh[p]; ok {
		return r
	}
	prof := c09Profiles()[p]
	var refs []c09Ref
	for di, d := range c09Docs() {
		if di >= c09Alphabet && p != 0 {
			refs = append(refs, c09Ref{})
			continue // the huge document is only used with profile 0
		}
		r := Validate(prof, d)
		if r.Panic != nil {
			panic("harness: fresh validation panics: " + r.ErrString())
		}
		refs = append(refs, c09Ref{report: r.Report, isErr: r.Err != nil})
	}
	c09Fresh[p] = refs
	return refs
}

// c09RunChurn: many OTHER profiles are compiled between two uses of one profile. Sizes sit on both sides of every
// power of two up to 256 (the capacities a bounded memo would plausibly have).
func c09RunChurn(c *Ctx, cs c09Case) {
	P := c09Profiles()[0]
	docs := c09Docs()
	refs := c09FreshRefs(c, 0)
	variant := func(i int) string {
		return strings.Replace(P, "profile: seed plain", fmt.Sprintf("profile: churn %d of %d", i, cs.Churn), 1)
	}
	expectVariant := func(i int) string {
		return strings.Replace(refs[0].report, "seed plain", fmt.Sprintf("churn %d of %d", i, cs.Churn), -1)
	}
	if variant(1) == P || !strings.Contains(refs[0].report, "seed plain") {
		panic("harness: C09 churn variants are not distinct from the base profile")
	}
	bad := func(what string, ref, got string) {
		c.Violate("C09 "+what+" after other profiles were compiled in between", fmt.Sprintf("churn of %d distinct profile texts\n%s", cs.Churn, firstDiff(ref, got)), nil)
	}
	q0, cr := Compile(P)
	if q0 == nil {
		c.Violate("C09 profile does not compile: "+firstLine(cr.ErrString()), P, nil)
		return
	}
	if r := Validate(P, docs[0]); r.Report != refs[0].report {
		bad("report of the profile text differs from a fresh validation (before the churn)", refs[0].report, r.Report)
	}
	for i := 1; i <= cs.Churn; i++ {
		r := Validate(variant(i), docs[0])
		c.Eval(1)
		if r.Report != expectVariant(i) {
			bad(fmt.Sprintf("report of another profile (variant %d)", i), expectVariant(i), r.Report)
			break
		}
	}
	for _, d := range []int{0, 4} {
		if r := Validate(P, docs[d]); r.Report != refs[d].report {
			bad("report of the profile text differs from a fresh validation", refs[d].report, r.Report)
		}
		if r := ValidateCompiled(q0, docs[d]); r.Report != refs[d].report {
			bad("report of the query compiled earlier differs from a fresh validation", refs[d].report, r.Report)
		}
		if q1, _ := Compile(P); q1 != nil {
			if r := ValidateCompiled(q1, docs[d]); r.Report != refs[d].report {
				bad("report of the re-compiled profile differs from a fresh validation", refs[d].report, r.Report)
			}
		}
		c.Eval(3)
	}
	// the first, a middle and the last of the other profiles are still themselves
	for _, i := range []int{1, (cs.Churn + 1) / 2, cs.Churn} {
		if i >= 1 {
			if r := Validate(variant(i), docs[0]); r.Report != expectVariant(i) {
				bad(fmt.Sprintf("report of another profile (variant %d, revisited)", i), expectVariant(i), r.Report)
			}
		}
	}
	c.Count("states", int64(cs.Churn)+8)
	c.Count("transitions", int64(cs.Churn)+8)
	c.Count("traces_validated_against_impl", int64(cs.Churn)+8)
	c.Outcome("churn")
	c.Nontrivial(fmt.Sprintf("churn/%d", cs.Churn))
}

func c09Run(c *Ctx, cs c09Case) {
	if cs.Churn > 0 {
		c09RunChurn(c, cs)
		return
	}
	if cs.Conf {
		c09RunConf(c, cs)
		return
	}
	prof := c09Profiles()[cs.Profile]
	docs := c09Docs()
	refs := c09FreshRefs(c, cs.Profile)
	nd := c09Alphabet
	hist := append([]int{}, cs.Prefix...)
	var rec func()
	runHistory := func(h []int) {
		q, cr := Compile(prof)
		if q == nil {
			c.Violate("C09 profile does not compile: "+firstLine(cr.ErrString()), prof, nil)
			return
		}
		type kept struct {
			report string // as returned
			clone  string // private copy of its bytes made immediately
			at     int
		}
		var keptReports []kept
		defer func() {
			for _, k := range keptReports {
				if k.report != k.clone {
					c.Violate("C09 a report returned earlier changed after later validations (it aliases storage that is re-used)", fmt.Sprintf("profile %d history %s: the report returned at step %d no longer has the bytes it had then\n%s", cs.Profile, histString(h), k.at+1, firstDiff(k.clone, k.report)), c09Case{Profile: cs.Profile, Prefix: h, Exact: true})
					break
				}
			}
		}()
		for i, d := range h {
			r := ValidateCompiled(q, docs[d])
			c.Eval(1)
			keptReports = append(keptReports, kept{report: r.Report, clone: string(append([]byte(nil), r.Report...)), at: i})
			hs := histString(h[:i+1])
			if r.Panic != nil {
				c.Violate("C09 panic at "+r.Panic.Sig(), fmt.Sprintf("profile %d history %s\n%s", cs.Profile, hs, r.Panic.Value), c09Case{Profile: cs.Profile, Prefix: h[:i+1], Depth: i + 1})
				return
			}
			ref := refs[d]
			if (r.Err != nil) != ref.isErr {
				c.Violate("C09 error-ness differs from a fresh validation", fmt.Sprintf("profile %d history %s: compiled err=%v fresh isErr=%v", cs.Profile, hs, r.Err, ref.isErr), c09Case{Profile: cs.Profile, Prefix: h[:i+1], Depth: i + 1})
			} else if r.Report != ref.report {
				sig := "C09 report differs from a fresh validation of the same document"
				if i == 0 {
					sig = "C09 precompiled report differs from validating with the profile text"
				}
				c.Violate(sig, fmt.Sprintf("profile %d history %s\n%s", cs.Profile, hs, firstDiff(ref.report, r.Report)), c09Case{Profile: cs.Profile, Prefix: h[:i+1], Depth: i + 1})
			}
			if r.Err != nil {
				c.Outcome("doc=" + c09DocNames[d] + " error")
			} else {
				c.Outcome(fmt.Sprintf("doc=%s report conforms=%v", c09DocNames[d], strings.Contains(r.Report, `"conforms": true`)))
			}
		}
	}
	rec = func() {
		if len(hist) == cs.Depth {
			runHistory(hist)
			// distinct tree edges below this prefix are counted once: the last step of every maximal history,
			// and inner steps when this is the first maximal history through them
			return
		}
		for d := 0; d < nd; d++ {
			hist = append(hist, d)
			rec()
			hist = hist[:len(hist)-1]
		}
	}
	if cs.Exact {
		runHistory(cs.Prefix)
		c.Count("states", int64(len(cs.Prefix)))
		c.Count("transitions", int64(len(cs.Prefix)))
		c.Count("traces_validated_against_impl", int64(len(cs.Prefix)))
		if len(refs) > 9 {
			c.Max("largest_report_bytes", int64(len(refs[9].report)))
		}
		c.Nontrivial(fmt.Sprintf("%d/exact/%v", cs.Profile, cs.Prefix))
		return
	}
	if len(hist) > cs.Depth {
		hist = hist[:cs.Depth]
	}
	rec()
	// exact counts of distinct states/transitions in the history tree owned by this case
	below := int64(0) // nodes strictly below the prefix
	pow := int64(1)
	for l := len(cs.Prefix) + 1; l <= cs.Depth; l++ {
		pow *= int64(nd)
		below += pow
	}
	own := below + 1 // the prefix node itself
	tr := below + 1  // and the edge into it
	// an ancestor at depth l (and the edge into it) is owned by the case whose prefix continues with first letters only
	for l := len(cs.Prefix) - 1; l >= 0; l-- {
		zeros := true
		for _, x := range cs.Prefix[l:] {
			zeros = zeros && x == 0
		}
		if zeros {
			own++
			if l >= 1 {
				tr++
			}
		}
	}
	c.Count("states", own)
	c.Count("transitions", tr)
	c.Count("traces_validated_against_impl", tr)
	c.Nontrivial(fmt.Sprintf("%d/%v", cs.Profile, cs.Prefix))
	c.Sample(map[string]any{"profile": cs.Profile, "history": histString(append(append([]int{}, cs.Prefix...), 0))})
}

func histString(h []int) string {
	parts := make([]string, len(h))
	for i, d := range h {
		parts[i] = c09DocNames[d]
	}
	return "[" + strings.Join(parts, " → ") + "]"
}

func firstDiff(a, b string) string {
	n := len(a)
	if len(b) < n {
		n = len(b)
	}
	i := 0
	for i < n && a[i] == b[i] {
		i++
	}
	lo := i - 200
	if lo < 0 {
		lo = 0
	}
	ha, hb := i+200, i+200
	if ha > len(a) {
		ha = len(a)
	}
	if hb > len(b) {
		hb = len(b)
	}
	return fmt.Sprintf("first difference at byte %d\nexpected: …%s…\nobserved: …%s…", i, a[lo:ha], b[lo:hb])
}
