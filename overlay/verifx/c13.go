//go:build verif

package verifx

import (
	"fmt"
	"regexp"
	"strings"

	"gopkg.in/yaml.v3"
)

// C13 — profile text is data: names and messages reach the report intact.

type c13Case struct {
	Slot  string   `json:"slot"`
	Texts []string `json:"texts"` // the strings put into the slot (each a separate profile)
	Slot2 string   `json:"slot2,omitempty"`
	Text2 string   `json:"text2,omitempty"`
}

var c13Tokens = []string{"'", "\"", "\\", "%", "%%", "%v", "%d", "%s", "{", "}", "{{", "}}", "{{x}}", "\n", "\t", "`", "$", "$node", "$message", "$result", "#", ":", ",", "[", "\\n", "\\\"", "é", "日", "😀", "<", ">", "&", "|",
	// one representative per class of code point that escaping helpers tend to single out: C0 controls other than \n/\t, DEL,
	// C1 control, no-break and zero-width spaces, bidi override, line separator, BOM, replacement character, a BMP
	// noncharacter, and non-printable code points above U+FFFF (tag character, private use, format control, last code point)
	"\r", "\x01", "\x7f", "\u0085", "\u00a0", "\u200b", "\u202e", "\u2028", "\ufeff", "\ufffd", "\uffff", "\U000E0067", "\U000F0001", "\U0001D173", "\U0010FFFF"}
var c13Slots = []string{"profile", "validation", "message", "message+placeholder", "message+2placeholders", "in", "containsAll", "containsSome", "pattern-free-message-absent-value", "message+same-placeholder-twice", "message+same-placeholder-3-spellings", "in-under-nested"}

const c13Base = "Abc def"

func c13Variants(tok string) []string {
	return []string{tok + c13Base, c13Base[:3] + tok + c13Base[3:], c13Base + tok}
}

// c13Build renders the profile for one slot assignment. Unassigned slots take plain defaults.
func c13Build(assign map[string]string) (profile string, names map[string]string) {
	get := func(slot, def string) string {
		if v, ok := assign[slot]; ok {
			return v
		}
		return def
	}
	pname := get("profile", "c13 profile")
	vname := get("validation", "v1")
	msg := "plain message"
	switch {
	case assign["placeholder-only"] != "":
		msg = "{{" + assign["placeholder-only"] + "}}"
	case assign["message"] != "":
		msg = assign["message"]
	case assign["message+placeholder"] != "":
		msg = assign["message+placeholder"] + " {{ex.name}}"
	case assign["message+2placeholders"] != "":
		msg = "{{ ex.name }}" + assign["message+2placeholders"] + "{{ex.missing}}"
	case assign["message+same-placeholder-twice"] != "":
		msg = "{{ex.name}} " + assign["message+same-placeholder-twice"] + " {{ex.name}}"
	case assign["message+same-placeholder-3-spellings"] != "":
		msg = "{{ex.name}}" + assign["message+same-placeholder-3-spellings"] + "{{ ex.name }}{{ex.name}} and {{ex.missing}}{{ex.missing}}"
	case assign["pattern-free-message-absent-value"] != "":
		msg = assign["pattern-free-message-absent-value"] + " {{ex.missing}} end"
	}
	cons := M("minCount", 1)
	listSlot := ""
	for _, ls := range []string{"in", "containsAll", "containsSome"} {
		if v, ok := assign[ls]; ok {
			listSlot = ls
			cons = M(ls, []any{YQ(v), YQ("other")})
		}
	}
	path := "ex.p1"
	if listSlot != "" {
		path = "ex.val"
	}
	if v, ok := assign["in-under-nested"]; ok {
		// the list constraint sits inside a nested validation (its code and trace are embedded in the outer rule)
		path = "ex.self"
		cons = M("nested", M("propertyConstraints", M("ex.val", M("in", []any{YQ(v), YQ("other")}))))
		listSlot = "in"
	}
	top := M("profile", YQ(pname), "prefixes", M("ex", EX), "violation", []any{YQ(vname)},
		"validations", M(vname, M("message", YQ(msg), "targetClass", "ex.T", "propertyConstraints", M(path, cons))))
	return EmitYAML(top), map[string]string{"profile": pname, "validation": vname, "message": msg, "list": listSlot}
}

var c13PlaceholderRe = regexp.MustCompile(`\{\{\s*([\w-]+\.[\w-]+)\s*}}`)

// c13ExpectedMessage: each {{prefix.prop}} replaced by the focus node's value (null when absent), double quotes shown as single quotes.
func c13ExpectedMessage(msg string, node *GNode) string {
	// double quotes of the message text are shown as single quotes; substituted values are shown as they are
	msg = strings.ReplaceAll(msg, "\"", "'")
	out := c13PlaceholderRe.ReplaceAllStringFunc(msg, func(m string) string {
		sub := c13PlaceholderRe.FindStringSubmatch(m)
		vals := node.Get(expandCompact(sub[1]))
		if len(vals) == 0 {
			return "null"
		}
		return litString(vals[0])
	})
	return out
}

func init() {
	Register(Meta{
		ID: "C13", Level: "exploration",
		Rule:        "deviation-bounded: slots = profile name, validation name, message, message followed by a placeholder, message between two placeholders (one referring to an absent property), message before a placeholder of an absent property, a value of an `in` / `containsAll` / `containsSome` list; token alphabet of 48 special tokens (quotes, backslash, percent forms, braces, a non-placeholder {{x}}, newline, tab, back-tick, $-variables of the embedding language, #, :, comma, bracket, the two-character sequences \\n and \\\", non-ASCII, non-BMP, <, >, &, |, and one representative per class of unusual code point: CR, U+0001, DEL, a C1 control, no-break/zero-width space, bidi override, U+2028, BOM, U+FFFD, the noncharacter U+FFFF, and four non-printable code points above U+FFFF); a deviation is one token inserted at the start, middle or end of a plain base string. Bound 1 = every (slot, token, position); bound 2 (thorough) = every ordered pair of tokens in one slot and every pair across two slots. The YAML is emitted with double-quoted scalars and parsed back with yaml.v3 to confirm the intended string. Oracle: CompileProfile succeeds; profileName and sourceShapeName verbatim; resultMessage equals the reference rendering (placeholders -> value or null, double quote -> single quote, everything else byte-identical); the set of reported nodes equals the one obtained with the plain base string; a node whose value equals the special list value passes `in`/contains and one that differs fails. Non-trivial = every case (all contain a special token); distinct by profile text.",
		Assumptions: []string{"placeholders refer to single-valued properties (multi-valued rendering is not defined by the statement)"},
	}, c13Gen, c13Run)
}

func c13Gen(tier string, emit func(c13Case)) {
	emit(c13Case{Slot: "placeholder-only", Texts: []string{"ex.name", "ex.num", "ex.flag", "ex.missing", "ex.big", "ex.i53", "ex.i64", "ex.m64", "ex.ns", "ex.zero", "ex.neg"}})
	for _, slot := range c13Slots {
		for _, tok := range c13Tokens {
			emit(c13Case{Slot: slot, Texts: c13Variants(tok)})
		}
	}
	if tier == "thorough" {
		for _, slot := range c13Slots {
			for _, t1 := range c13Tokens {
				var texts []string
				for _, t2 := range c13Tokens {
					texts = append(texts, t1+c13Base[:3]+t2+c13Base[3:], c13Base[:3]+t1+t2+c13Base[3:], c13Base[:2]+t1+c13Base[2:]+t2)
				}
				emit(c13Case{Slot: slot, Texts: texts})
			}
		}
		for i, s1 := range c13Slots {
			for _, s2 := range c13Slots[i+1:] {
				if strings.HasPrefix(s1, "message") && strings.HasPrefix(s2, "message") || strings.HasPrefix(s1, "pattern") && strings.HasPrefix(s2, "message") || strings.HasPrefix(s2, "pattern") && strings.HasPrefix(s1, "message") {
					continue
				}
				isList := func(s string) bool { return s == "in" || s == "containsAll" || s == "containsSome" }
				if isList(s1) && isList(s2) {
					continue
				}
				for _, t2 := range c13Tokens {
					var texts []string
					for _, t1 := range c13Tokens {
						texts = append(texts, c13Base[:3]+t1+c13Base[3:])
					}
					emit(c13Case{Slot: s1, Texts: texts, Slot2: s2, Text2: c13Base[:3] + t2 + c13Base[3:]})
				}
			}
		}
	}
}

func c13Graph(special string) *Graph {
	g := &Graph{}
	// n0 fails minCount (no p1); its list value differs from the special one. n1 passes both.
	g.Add(nid(0), EX+"T").P(EX+"name", "zero %d \"q\"").P(EX+"val", "different value").P(EX+"num", 7).P(EX+"flag", true).P(EX+"big", 123456789012)
	// integers beyond the range a float64 holds exactly (identifiers, int64 bounds, nanosecond timestamps)
	g.Nodes[0].P(EX+"i53", 9007199254740993).P(EX+"i64", 9223372036854775807).P(EX+"m64", -9223372036854775807).P(EX+"ns", 1700000000123456789).P(EX+"zero", 0).P(EX+"neg", -1)
	g.Nodes[0].P(EX+"self", Ref(nid(0)))
	n1 := g.Add(nid(1), EX+"T").P(EX+"name", "one").P(EX+"p1", "v").P(EX+"self", Ref(nid(1)))
	if special != "" {
		n1.P(EX+"val", special)
	} else {
		n1.P(EX+"val", "other")
	}
	return g
}

func c13Run(c *Ctx, cs c13Case) {
	for _, text := range cs.Texts {
		assign := map[string]string{cs.Slot: text}
		if cs.Slot2 != "" {
			assign[cs.Slot2] = cs.Text2
		}
		one := c13Case{Slot: cs.Slot, Texts: []string{text}, Slot2: cs.Slot2, Text2: cs.Text2}
		prof, names := c13Build(assign)
		// the profile must really contain the intended strings
		var back map[string]any
		if err := yaml.Unmarshal([]byte(prof), &back); err != nil || back["profile"] != names["profile"] {
			panic(fmt.Sprintf("harness: emitted YAML does not round-trip (%v): %q", err, prof))
		}
		c.Nontrivial(prof)
		special := ""
		if names["list"] != "" {
			special = assign[names["list"]]
		}
		if v, ok := assign["in-under-nested"]; ok {
			special = v
		}
		g := c13Graph(special)
		data := g.FlatJSONLD()
		tokClass := c13TokenOf(text)
		where := fmt.Sprintf("slot=%s text=%q", cs.Slot, text)
		if cs.Slot2 != "" {
			where += fmt.Sprintf(" slot2=%s text2=%q", cs.Slot2, cs.Text2)
			tokClass += "+" + c13TokenOf(cs.Text2)
		}
		slotClass := cs.Slot
		if cs.Slot2 != "" {
			slotClass += "+" + cs.Slot2
		}
		q, cr := Compile(prof)
		c.Eval(1)
		if cr.Panic != nil {
			c.Violate(fmt.Sprintf("C13 panic compiling (slot %s, token %s)", slotClass, tokClass), where+"\n"+cr.Panic.Value, one)
			continue
		}
		if q == nil || cr.Err != nil {
			c.Violate(fmt.Sprintf("C13 profile does not compile (slot %s, token %s)", slotClass, tokClass), fmt.Sprintf("%s\nerror: %v\nprofile:\n%s", where, firstLine(cr.Err.Error()), prof), one)
			c.Outcome("does not compile")
			continue
		}
		r := ValidateCompiled(q, data)
		c.Eval(1)
		if r.Err != nil || r.Panic != nil {
			c.Violate(fmt.Sprintf("C13 evaluation fails (slot %s, token %s)", slotClass, tokClass), where+"\n"+r.ErrString(), one)
			continue
		}
		rep, err := ParseReport(r.Report)
		if err != nil {
			c.Violate("C13 report malformed", where+"\n"+err.Error(), one)
			continue
		}
		bad := func(what, detail string) {
			c.Violate(fmt.Sprintf("C13 %s (slot %s, token %s)", what, slotClass, tokClass), where+"\n"+detail+"\nprofile:\n"+prof, one)
		}
		if rep.ProfileName != names["profile"] {
			bad("profileName not verbatim", fmt.Sprintf("got %q want %q", rep.ProfileName, names["profile"]))
		}
		// verdict: which nodes are reported
		want := map[string]bool{}
		switch names["list"] {
		case "":
			want[nid(0)] = true
		case "in":
			want[nid(0)] = true // "different value" is not in the list; n1's value equals the special string
		case "containsAll":
			want[nid(0)] = true
			want[nid(1)] = true // n1 has the special value but not "other"
		case "containsSome":
			want[nid(0)] = true
		}
		got := map[string]bool{}
		for _, res := range rep.Results {
			got[res.Focus] = true
			if res.Shape != names["validation"] {
				bad("sourceShapeName not verbatim", fmt.Sprintf("got %q want %q", res.Shape, names["validation"]))
			}
			if n := g.Node(res.Focus); n != nil {
				if exp := c13ExpectedMessage(names["message"], n); res.Message != exp {
					bad("resultMessage differs from the message as written", fmt.Sprintf("got  %q\nwant %q", res.Message, exp))
				}
			}
		}
		if !setEq(got, want) {
			bad("special characters change which nodes are reported", fmt.Sprintf("reported %s, expected %s", setStr(got), setStr(want)))
		}
		c.Outcome("ok")
	}
	c.Sample(map[string]any{"slot": cs.Slot, "text": cs.Texts[0], "slot2": cs.Slot2, "text2": cs.Text2})
}

// c13TokenOf names the special token(s) inserted into the base string (for signatures).
func c13TokenOf(text string) string {
	rest := text
	for _, part := range []string{"Abc", " def", "Ab", "c def"} {
		rest = strings.Replace(rest, part, "", 1)
	}
	if rest == "" {
		return "none"
	}
	return fmt.Sprintf("%q", rest)
}
