//go:build verif

package verifx

import (
	"encoding/json"
	"fmt"
	"regexp"
	"runtime"
	"sort"
	"strings"
	"sync/atomic"
	"time"
	"unicode"

	"github.com/aml-org/amf-custom-validator/pkg"
	"github.com/aml-org/amf-custom-validator/pkg/config"
	"github.com/aml-org/amf-custom-validator/pkg/events"
	"github.com/aml-org/amf-custom-validator/verifrt"
	"github.com/open-policy-agent/opa/rego"
)

// FixedClock is the repository's own configuration seam with a chosen instant.
type FixedClock struct{ T time.Time }

func (f FixedClock) ReportCreationTime() time.Time { return f.T }

var Epoch2000 = FixedClock{time.Date(2000, time.November, 28, 0, 0, 0, 0, time.UTC)}

func DefaultReportConf() config.ReportConfiguration { return config.DefaultReportConfiguration() }

// PanicInfo describes a panic that escaped a library call.
type PanicInfo struct {
	Value string // panic value, shortened
	Site  string // topmost repository frame "file.go:Func"
	Class string // coarse class of the panic value
}

func (p *PanicInfo) Sig() string { return p.Site + " / " + p.Class }

func panicInfo(r any) *PanicInfo {
	val := fmt.Sprint(r)
	class := "error"
	switch {
	case strings.Contains(val, "interface conversion"):
		class = "interface conversion"
	case strings.Contains(val, "index out of range"):
		class = "index out of range"
	case strings.Contains(val, "nil pointer"):
		class = "nil pointer"
	case strings.Contains(val, "nil map"):
		class = "nil map"
	case strings.Contains(val, "close of closed channel"):
		class = "close of closed channel"
	case strings.Contains(val, "close of nil channel"):
		class = "close of nil channel"
	case strings.Contains(val, "send on closed channel"):
		class = "send on closed channel"
	case strings.Contains(val, "slice bounds"):
		class = "slice bounds"
	}
	site := "?"
	pcs := make([]uintptr, 64)
	n := runtime.Callers(3, pcs)
	frames := runtime.CallersFrames(pcs[:n])
	const mod = "amf-custom-validator/"
	for {
		f, more := frames.Next()
		if i := strings.Index(f.Function, mod); i >= 0 && !strings.Contains(f.Function, "verifx") && !strings.Contains(f.Function, "cmd/vworker") {
			rest := f.Function[i+len(mod):] // e.g. internal/validator.Index or internal/parser/path.(*parser).parse
			slash := strings.LastIndex(rest, "/")
			dot := strings.Index(rest[slash+1:], ".")
			pkgPath, fn := rest, ""
			if dot >= 0 {
				pkgPath, fn = rest[:slash+1+dot], rest[slash+1+dot+1:]
			}
			base := f.File
			if j := strings.LastIndex(base, "/"); j >= 0 {
				base = base[j+1:]
			}
			site = pkgPath + "/" + base + ":" + fn
			break
		}
		if !more {
			break
		}
	}
	if len(val) > 300 {
		val = val[:300]
	}
	return &PanicInfo{Value: val, Site: site, Class: class}
}

// CallRes is the outcome of one protected library call.
type CallRes struct {
	Report string
	Err    error
	Panic  *PanicInfo
}

func (r CallRes) ErrString() string {
	if r.Panic != nil {
		return "PANIC " + r.Panic.Sig() + ": " + r.Panic.Value
	}
	if r.Err != nil {
		return "ERR " + r.Err.Error()
	}
	return ""
}

func protect(f func() (string, error)) (res CallRes) {
	defer func() {
		if r := recover(); r != nil {
			res = CallRes{Panic: panicInfo(r)}
		}
	}()
	s, err := f()
	return CallRes{Report: s, Err: err}
}

// ---- twins: the debug flag and the sibling entry points ---------------------------
//
// Every entry point takes a `debug` flag that, by the documentation, only adds diagnostics; and the four validating
// entry points are documented as one function seen through different defaults. Every 8th call made through the
// wrappers below (those without an event channel, outside controlled executions) is repeated, in rotation, (a) with
// debug=true, (b) through the entry point that takes no configuration (default clock: the dateCreated value is
// masked on both sides), (c) for calls that start from the profile text: compiled first, then validated with the
// compiled query, (d) with an event channel drained by a collector. The outcomes must be identical. A difference is parked here and turned into a violation of the
// running check's property by the framework when the case ends.

var twinCalls int64
var DebugTwinDiff string

var twinDateRe = regexp.MustCompile(`"dateCreated": "[^"]*"`)

func twinCompare(what string, r, r2 CallRes, maskDate bool) {
	a, b := r.Report, r2.Report
	if maskDate {
		a, b = twinDateRe.ReplaceAllString(a, `"dateCreated": "-"`), twinDateRe.ReplaceAllString(b, `"dateCreated": "-"`)
	}
	if (r.Err == nil) != (r2.Err == nil) || (r.Panic == nil) != (r2.Panic == nil) || a != b {
		if DebugTwinDiff == "" {
			DebugTwinDiff = fmt.Sprintf("%s: the call gives %s (%d bytes), its twin gives %s (%d bytes)\n%s", what, firstLine(r.ErrString()), len(r.Report), firstLine(r2.ErrString()), len(r2.Report), firstDiff(a, b))
		}
	}
}

// withTwins: f is the call (parameterised by debug); plain, if not nil, is the same call through the entry point
// without configuration; viaCompile, if not nil, is the same call as CompileProfile + ValidateCompiledWithConfiguration.
func withTwins(what string, defaults bool, f func(debug bool) (string, error), plain, viaCompile func() (string, error), withCh func(ch *chan events.Event) (string, error)) CallRes {
	r := protect(func() (string, error) { return f(false) })
	n := atomic.AddInt64(&twinCalls, 1)
	if n%8 != 0 || verifrt.Active != nil {
		return r
	}
	switch (n / 8) % 4 {
	case 3:
		// the same call with an event channel (drained by a collector): the outcome must not depend on being observed,
		// and the channel must have been closed by the library when the call returns
		r2, closed, _ := withChan(1, func(ch *chan events.Event) CallRes {
			return protect(func() (string, error) { return withCh(ch) })
		})
		twinCompare(what+" with an event channel", r, r2, false)
		if !closed && DebugTwinDiff == "" {
			DebugTwinDiff = what + " with an event channel: the channel was not closed when the call returned"
		}
	case 0:
		twinCompare(what+" with debug=true", r, protect(func() (string, error) { return f(true) }), false)
	case 1:
		if plain != nil && defaults {
			twinCompare(what+" through the entry point without configuration", r, protect(plain), true)
		}
	case 2:
		if viaCompile != nil {
			twinCompare(what+" as CompileProfile + ValidateCompiledWithConfiguration", r, protect(viaCompile), false)
		}
	}
	return r
}

func isDefaultConf(rc config.ReportConfiguration) bool {
	return rc == config.DefaultReportConfiguration()
}

func viaCompile(profile, data string, clock config.ValidationConfiguration, rc config.ReportConfiguration) func() (string, error) {
	return func() (string, error) {
		q, err := pkg.CompileProfile(profile, false, nil)
		if err != nil {
			return "", err
		}
		return pkg.ValidateCompiledWithConfiguration(q, data, false, nil, clock, rc)
	}
}

// Validate runs pkg.ValidateWithConfiguration under the fixed clock.
func Validate(profile, data string) CallRes {
	return ValidateConf(profile, data, Epoch2000, DefaultReportConf(), nil)
}

func ValidateConf(profile, data string, clock config.ValidationConfiguration, rc config.ReportConfiguration, ch *chan events.Event) CallRes {
	if ch == nil {
		return withTwins("ValidateWithConfiguration", isDefaultConf(rc), func(debug bool) (string, error) {
			return pkg.ValidateWithConfiguration(profile, data, debug, nil, clock, rc)
		}, func() (string, error) { return pkg.Validate(profile, data, false, nil) }, viaCompile(profile, data, clock, rc),
			func(ch *chan events.Event) (string, error) {
				return pkg.ValidateWithConfiguration(profile, data, false, ch, clock, rc)
			})
	}
	return protect(func() (string, error) {
		return pkg.ValidateWithConfiguration(profile, data, false, ch, clock, rc)
	})
}

// Compile runs pkg.CompileProfile protected.
func Compile(profile string) (q *rego.PreparedEvalQuery, res CallRes) {
	defer func() {
		if r := recover(); r != nil {
			q = nil
			res = CallRes{Panic: panicInfo(r)}
		}
	}()
	qq, err := pkg.CompileProfile(profile, false, nil)
	return qq, CallRes{Err: err}
}

func CompileCh(profile string, ch *chan events.Event) (q *rego.PreparedEvalQuery, res CallRes) {
	defer func() {
		if r := recover(); r != nil {
			q = nil
			res = CallRes{Panic: panicInfo(r)}
		}
	}()
	qq, err := pkg.CompileProfile(profile, false, ch)
	return qq, CallRes{Err: err}
}

// ValidateCompiled runs pkg.ValidateCompiledWithConfiguration under the fixed clock.
func ValidateCompiled(q *rego.PreparedEvalQuery, data string) CallRes {
	return ValidateCompiledConf(q, data, Epoch2000, DefaultReportConf(), nil)
}

func ValidateCompiledConf(q *rego.PreparedEvalQuery, data string, clock config.ValidationConfiguration, rc config.ReportConfiguration, ch *chan events.Event) CallRes {
	if ch == nil {
		return withTwins("ValidateCompiledWithConfiguration", isDefaultConf(rc), func(debug bool) (string, error) {
			return pkg.ValidateCompiledWithConfiguration(q, data, debug, nil, clock, rc)
		}, func() (string, error) { return pkg.ValidateCompiled(q, data, false, nil) }, nil,
			func(ch *chan events.Event) (string, error) {
				return pkg.ValidateCompiledWithConfiguration(q, data, false, ch, clock, rc)
			})
	}
	return protect(func() (string, error) {
		return pkg.ValidateCompiledWithConfiguration(q, data, false, ch, clock, rc)
	})
}

// ---- report parsing --------------------------------------------------------

type Result struct {
	Severity string
	Shape    string
	Focus    string
	Message  string
	Raw      map[string]any
}

type Report struct {
	Conforms    bool
	HasConforms bool
	ProfileName string
	DateCreated *string
	HasResult   bool
	Results     []Result
	Context     map[string]any
	Raw         []any
	Encodes     map[string]any
}

// ParseReport parses the report JSON text. It returns an error when the text
// is not the documented envelope.
func ParseReport(text string) (*Report, error) {
	var top any
	dec := json.NewDecoder(strings.NewReader(text))
	dec.UseNumber()
	if err := dec.Decode(&top); err != nil {
		return nil, fmt.Errorf("report is not JSON: %v", err)
	}
	if rest := strings.TrimSpace(text[dec.InputOffset():]); rest != "" {
		return nil, fmt.Errorf("report is not one JSON document: %d bytes follow the first value (%q…)", len(rest), tailStr(rest, 40))
	}
	arr, ok := top.([]any)
	if !ok || len(arr) != 1 {
		return nil, fmt.Errorf("report top level is not a one-element array")
	}
	inst, ok := arr[0].(map[string]any)
	if !ok {
		return nil, fmt.Errorf("dialect instance is not an object")
	}
	enc, ok := inst["doc:encodes"].([]any)
	if !ok || len(enc) != 1 {
		return nil, fmt.Errorf("doc:encodes is not a one-element array")
	}
	rn, ok := enc[0].(map[string]any)
	if !ok {
		return nil, fmt.Errorf("report node is not an object")
	}
	r := &Report{Raw: arr, Encodes: rn}
	if c, ok := inst["@context"].(map[string]any); ok {
		r.Context = c
	}
	if b, ok := rn["conforms"].(bool); ok {
		r.Conforms, r.HasConforms = b, true
	}
	if s, ok := rn["profileName"].(string); ok {
		r.ProfileName = s
	}
	if s, ok := rn["dateCreated"].(string); ok {
		r.DateCreated = &s
	}
	if res, present := rn["result"]; present {
		r.HasResult = true
		list, ok := res.([]any)
		if !ok {
			return nil, fmt.Errorf("result is not an array")
		}
		for _, e := range list {
			m, ok := e.(map[string]any)
			if !ok {
				return nil, fmt.Errorf("result entry is not an object")
			}
			x := Result{Raw: m}
			x.Severity, _ = m["resultSeverity"].(string)
			x.Shape, _ = m["sourceShapeName"].(string)
			x.Focus, _ = m["focusNode"].(string)
			x.Message, _ = m["resultMessage"].(string)
			r.Results = append(r.Results, x)
		}
	}
	return r, nil
}

// Triples returns the sorted set of "severity|shape|focus" strings.
func (r *Report) Triples() []string {
	set := map[string]bool{}
	for _, x := range r.Results {
		set[shortSev(x.Severity)+"|"+x.Shape+"|"+x.Focus] = true
	}
	return sortedKeys(set)
}

// Quads adds the message.
func (r *Report) Quads() []string {
	set := map[string]bool{}
	for _, x := range r.Results {
		set[shortSev(x.Severity)+"|"+x.Shape+"|"+x.Focus+"|"+x.Message] = true
	}
	return sortedKeys(set)
}

// Verdict is the canonical (conforms, result set) string of a report.
func (r *Report) Verdict() string {
	return fmt.Sprintf("conforms=%v;%s", r.Conforms, strings.Join(r.Quads(), ";"))
}

func shortSev(s string) string {
	if i := strings.LastIndex(s, "#"); i >= 0 {
		return s[i+1:]
	}
	return s
}

func sortedKeys(m map[string]bool) []string {
	ks := make([]string, 0, len(m))
	for k := range m {
		ks = append(ks, k)
	}
	sort.Strings(ks)
	return ks
}

// FocusSet returns the set of focus nodes reported for one validation name.
func (r *Report) FocusSet(shape string) map[string]bool {
	s := map[string]bool{}
	for _, x := range r.Results {
		if x.Shape == shape {
			s[x.Focus] = true
		}
	}
	return s
}

func setEq(a, b map[string]bool) bool {
	if len(a) != len(b) {
		return false
	}
	for k := range a {
		if !b[k] {
			return false
		}
	}
	return true
}

func setStr(a map[string]bool) string { return "{" + strings.Join(sortedKeys(a), ",") + "}" }

// ---- YAML helpers -------------------------------------------------------------

// Y is a tiny ordered YAML emitter: maps keep insertion order.
type YMap struct {
	Keys []string
	Vals []any
}

func M(kv ...any) *YMap {
	m := &YMap{}
	for i := 0; i+1 < len(kv); i += 2 {
		m.Keys = append(m.Keys, kv[i].(string))
		m.Vals = append(m.Vals, kv[i+1])
	}
	return m
}

func (m *YMap) Set(k string, v any) *YMap {
	m.Keys = append(m.Keys, k)
	m.Vals = append(m.Vals, v)
	return m
}

// YQ is a string that must be emitted double-quoted.
type YQ string

// YRaw is emitted verbatim (already YAML).
type YRaw string

func yamlKey(k string) string {
	if k == "" || strings.ContainsAny(k, ":#{}[]&*!|>'\"%@`, \t\n\\^()/") || k == "if" {
		return yamlQuote(k)
	}
	return k
}

func yamlQuote(s string) string {
	var b strings.Builder
	b.WriteByte('"')
	for _, r := range s {
		switch r {
		case '"':
			b.WriteString(`\"`)
		case '\\':
			b.WriteString(`\\`)
		case '\n':
			b.WriteString(`\n`)
		case '\t':
			b.WriteString(`\t`)
		case '\r':
			b.WriteString(`\r`)
		default:
			switch {
			case r < 0x20 || (r >= 0x7f && r <= 0x9f):
				fmt.Fprintf(&b, `\x%02x`, r)
			case r <= 0xffff && !unicode.IsPrint(r):
				fmt.Fprintf(&b, `\u%04x`, r)
			case r > 0xffff && !unicode.IsPrint(r):
				fmt.Fprintf(&b, `\U%08x`, r)
			default:
				b.WriteRune(r)
			}
		}
	}
	b.WriteByte('"')
	return b.String()
}

// EmitYAML renders v (YMap, []any, string, int, float64, bool, YQ, YRaw) as block YAML.
func EmitYAML(v any) string {
	var b strings.Builder
	emitYAML(&b, v, 0)
	return b.String()
}

func emitScalar(v any) (string, bool) {
	switch x := v.(type) {
	case string:
		return yamlQuoteIfNeeded(x), true
	case YQ:
		return yamlQuote(string(x)), true
	case YRaw:
		return string(x), true
	case int:
		return fmt.Sprint(x), true
	case int64:
		return fmt.Sprint(x), true
	case float64:
		s := fmt.Sprint(x)
		if !strings.ContainsAny(s, ".e") {
			s += ".0"
		}
		return s, true
	case bool:
		return fmt.Sprint(x), true
	case nil:
		return "null", true
	}
	return "", false
}

var plainRe = regexp.MustCompile(`^[A-Za-z_][A-Za-z0-9_./-]*$`)

func yamlQuoteIfNeeded(s string) string {
	if plainRe.MatchString(s) {
		switch strings.ToLower(s) {
		case "true", "false", "null", "yes", "no", "on", "off", "y", "n", "~":
			return yamlQuote(s)
		}
		return s
	}
	return yamlQuote(s)
}

func emitYAML(b *strings.Builder, v any, ind int) {
	pad := strings.Repeat("  ", ind)
	switch x := v.(type) {
	case *YMap:
		if len(x.Keys) == 0 {
			b.WriteString(pad + "{}\n")
			return
		}
		for i, k := range x.Keys {
			val := x.Vals[i]
			if s, ok := emitScalar(val); ok {
				fmt.Fprintf(b, "%s%s: %s\n", pad, yamlKey(k), s)
				continue
			}
			switch vv := val.(type) {
			case *YMap:
				if len(vv.Keys) == 0 {
					fmt.Fprintf(b, "%s%s: {}\n", pad, yamlKey(k))
					continue
				}
			case []any:
				if len(vv) == 0 {
					fmt.Fprintf(b, "%s%s: []\n", pad, yamlKey(k))
					continue
				}
			}
			fmt.Fprintf(b, "%s%s:\n", pad, yamlKey(k))
			emitYAML(b, val, ind+1)
		}
	case []any:
		for _, e := range x {
			if s, ok := emitScalar(e); ok {
				fmt.Fprintf(b, "%s- %s\n", pad, s)
				continue
			}
			// nested structure under a list item
			var sb strings.Builder
			emitYAML(&sb, e, ind+1)
			lines := sb.String()
			// replace first indentation with "- "
			inner := strings.Repeat("  ", ind+1)
			if strings.HasPrefix(lines, inner) {
				lines = pad + "- " + lines[len(inner):]
			}
			b.WriteString(lines)
		}
	default:
		if s, ok := emitScalar(v); ok {
			b.WriteString(pad + s + "\n")
		} else {
			panic(fmt.Sprintf("emitYAML: unsupported %T", v))
		}
	}
}

func strs(xs ...string) []any {
	out := make([]any, len(xs))
	for i, x := range xs {
		out[i] = x
	}
	return out
}

// JSON marshals without HTML escaping, compact.
func JSON(v any) string {
	var b strings.Builder
	enc := json.NewEncoder(&b)
	enc.SetEscapeHTML(false)
	enc.Encode(v)
	return strings.TrimRight(b.String(), "\n")
}

const EX = "http://ex.org/"

func sortStrings(s []string) { sort.Strings(s) }

func imin(a, b int) int {
	if a < b {
		return a
	}
	return b
}

// CompileDebug is Compile with the debug flag of the entry point under the caller's control.
func CompileDebug(profile string, debug bool) (q *rego.PreparedEvalQuery, res CallRes) {
	defer func() {
		if r := recover(); r != nil {
			q = nil
			res = CallRes{Panic: panicInfo(r)}
		}
	}()
	qq, err := pkg.CompileProfile(profile, debug, nil)
	return qq, CallRes{Err: err}
}
