//go:build verif

package verifx

import (
	"encoding/json"
	"fmt"
	"os"
	"path/filepath"
	"runtime"
	"sort"
	"strings"
	"sync"
	"time"

	"github.com/aml-org/amf-custom-validator/pkg/config"
	"github.com/aml-org/amf-custom-validator/verifrt"
	"github.com/open-policy-agent/opa/rego"
)

// C10 — concurrent validations do not interfere.
// Stateless exploration of interleavings of the hooked shared accesses under a
// cooperative scheduler, with iterative preemption bounding.

type c10Case struct {
	Scenario string `json:"scenario"`
	Bound    int    `json:"bound"`
	Part     int    `json:"part"`
	Parts    int    `json:"parts"`
	Replay   []int  `json:"replay,omitempty"` // a recorded schedule to re-execute
}

const c10Pa = `profile: c10 a
prefixes:
  ex: http://ex.org/
violation:
  - v0
  - v1
validations:
  v0:
    message: r in list
    targetClass: ex.T
    propertyConstraints:
      ex.r:
        in: [a]
  v1:
    message: p less than q
    targetClass: ex.T
    propertyConstraints:
      ex.p:
        lessThanProperty: ex.q
`

const c10Pb = `profile: c10 b
prefixes:
  ex: http://ex.org/
violation:
  - r0
validations:
  r0:
    message: top-level rego
    targetClass: ex.T
    rego: |
      $result = (count(object.get($node, "http://ex.org/r", [])) > 0)
`

const c10Pc = `profile: c10 c
prefixes:
  ex: http://ex.org/
warning:
  - w0
validations:
  w0:
    message: nested
    targetClass: ex.T
    propertyConstraints:
      ex.c:
        nested:
          propertyConstraints:
            ex.p / ex.q:
              minCount: 1
`

func c10Data(n int) string { return c10DataG(n).FlatJSONLD() }

func c10DataG(n int) *Graph {
	g := &Graph{}
	for i := 0; i < n; i++ {
		node := g.Add(nid(i), EX+"T").P(EX+"p", 1+i).P(EX+"q", 10+i)
		if i%2 == 0 {
			node.P(EX+"r", "a")
		}
	}
	return g
}

type c10Scenario struct {
	n     int
	descr []string
	mk    func(results []CallRes) []func()
}

var c10SharedQ, c10SharedQ2 *rego.PreparedEvalQuery

// c10Pe / c10Pf: profiles WITHOUT a prefixes section (they use the built-in AMF prefixes only)
const c10Pe = `profile: c10 e
violation:
  - v0
validations:
  v0:
    message: name and datatype
    targetClass: shapes.ScalarShape
    propertyConstraints:
      core.name:
        minCount: 1
      shacl.datatype:
        minCount: 1
      shapes.range / core.name:
        maxCount: 1
`

const c10Pf = `profile: c10 f
warning:
  - w0
validations:
  w0:
    message: endpoints
    targetClass: apiContract.EndPoint
    propertyConstraints:
      apiContract.path:
        pattern: ^/
      apiContract.supportedOperation / apiContract.method:
        in: [get, post]
      doc.extends | core.description:
        maxCount: 2
`

// c10Pd: every node violates (r must be "zz"), so every validation produces results whatever the data
const c10Pd = `profile: c10 d
prefixes:
  ex: http://ex.org/
violation:
  - v0
validations:
  v0:
    message: r is zz
    targetClass: ex.T
    propertyConstraints:
      ex.p:
        in: [zz]
`

func c10Scenarios() map[string]c10Scenario {
	d1, d2 := c10Data(3), c10Data(4)
	val := func(p, d string) func() CallRes { return func() CallRes { return Validate(p, d) } }
	comp := func(p string) func() CallRes {
		return func() CallRes {
			q, r := Compile(p)
			if q != nil {
				r.Report = "compiled"
			}
			return r
		}
	}
	valc := func(d string) func() CallRes { return func() CallRes { return ValidateCompiled(c10SharedQ, d) } }
	valconf := func(p, d, iri string, inc bool) func() CallRes {
		return func() CallRes {
			return ValidateConf(p, d, Epoch2000, config.ReportConfiguration{IncludeReportCreationTime: inc, ReportSchemaIri: iri + "/report", LexicalSchemaIri: iri + "/lexical"}, nil)
		}
	}
	mk := func(fs ...func() CallRes) func(results []CallRes) []func() {
		return func(results []CallRes) []func() {
			bodies := make([]func(), len(fs))
			for i, f := range fs {
				i, f := i, f
				bodies[i] = func() { results[i] = f() }
			}
			return bodies
		}
	}
	return map[string]c10Scenario{
		"S1":  {2, []string{"Validate(Pa,d1)", "Validate(Pb,d1)"}, mk(val(c10Pa, d1), val(c10Pb, d1))},
		"S1r": {2, []string{"Validate(Pb,d1)", "Validate(Pa,d1)"}, mk(val(c10Pb, d1), val(c10Pa, d1))},
		"S2":  {3, []string{"Validate(Pa,d1)", "Validate(Pb,d2)", "CompileProfile(Pc)"}, mk(val(c10Pa, d1), val(c10Pb, d2), comp(c10Pc))},
		"S3":  {3, []string{"ValidateCompiled(q,d1)", "ValidateCompiled(q,d2)", "ValidateCompiled(q,d1)"}, mk(valc(d1), valc(d2), valc(d1))},
		"S4":  {2, []string{"Validate(Pa,d1)", "Validate(Pa,d1)"}, mk(val(c10Pa, d1), val(c10Pa, d1))},
		"S6":  {2, []string{"ValidateWithConfiguration(Pa,d1,confA)", "ValidateWithConfiguration(Pa,d2,confB)"}, mk(valconf(c10Pd, d1, "http://a.org", true), valconf(c10Pd, d2, "http://b.org", false))},
		"S7": {3, []string{"ValidateCompiledWithConfiguration(q,d1,confA)", "…(q,d2,confB)", "…(q,d1,confC)"}, mk(
			func() CallRes {
				return ValidateCompiledConf(c10SharedQ2, d1, Epoch2000, config.ReportConfiguration{IncludeReportCreationTime: true, ReportSchemaIri: "urn:a", LexicalSchemaIri: "urn:la"}, nil)
			},
			func() CallRes {
				return ValidateCompiledConf(c10SharedQ2, d2, FixedClock{Epoch2000.T.AddDate(1, 0, 0)}, config.ReportConfiguration{IncludeReportCreationTime: true, ReportSchemaIri: "urn:b", LexicalSchemaIri: "urn:lb"}, nil)
			},
			func() CallRes {
				return ValidateCompiledConf(c10SharedQ2, d1, Epoch2000, config.ReportConfiguration{ReportSchemaIri: "urn:c", LexicalSchemaIri: "urn:lc"}, nil)
			})},
		"S8": {2, []string{"Validate(Pe,d1) [no prefixes section]", "Validate(Pf,d2) [no prefixes section]"}, mk(val(c10Pe, d1), val(c10Pf, d2))},
		"S5": {2, []string{"CompileProfile(Pa)", "Validate(Pc,d2)"}, mk(comp(c10Pa), val(c10Pc, d2))},
		// data whose @context is a reference (a file): the JSON-LD document loader is involved in both threads; the two
		// documents bind DIFFERENT prefixes to the namespace, through different context files
		"S9": {2, []string{"Validate(Pa,d1 with a referenced @context)", "Validate(Pd,d2 with another referenced @context)"}, mk(
			func() CallRes { return Validate(c10Pa, c10DataG(3).RefContextJSONLDFresh("ex")) },
			func() CallRes { return Validate(c10Pd, c10DataG(4).RefContextJSONLDFresh("other")) })},
	}
}

func init() {
	Register(Meta{
		ID: "C10", Level: "model_checking", LongCases: true,
		Rule:        "instrumented build (every read/write of a repository package-level variable is a hooked access; x++ / x op= e on such variables split into load, scheduling point, store; sync redirected to shim primitives); harness threads run one at a time under a cooperative scheduler and control changes hands only at hooked accesses of variables the repository writes, and at shim lock operations. Scenarios: S1 Validate(Pa)||Validate(Pb) (Pa draws two path-rule names back to back, Pb is a two-call top-level rego profile), S1r same with thread order swapped, S2 three threads incl. CompileProfile, S3 one compiled query shared by three ValidateCompiled, S4 same profile twice, S5 CompileProfile||Validate, S6/S7 different report configurations (one shared compiled query), S8 profiles without a prefixes section, S9 documents whose @context is a reference to a file (the JSON-LD document loader runs in both threads). DFS over schedules with iterative preemption bounding (bound stated per scenario); per execution: every thread's (error-ness, report bytes) must equal the result of the same call run alone, no deadlock, and the vector-clock race verdict over all hooked accesses must be empty. A separate free-running pass of the same bodies under the Go race detector covers code the scheduler does not hook (dependencies).",
		Assumptions: []string{"interleavings inside OPA/json-gold and memory orderings weaker than sequential consistency are not explored by the scheduler; the free-running -race pass is an auxiliary cross-check for those"},
	}, c10Gen, c10Run)
}

func c10Gen(tier string, emit func(c10Case)) {
	type sb struct {
		s string
		b int
	}
	plan := []sb{{"S1", 2}, {"S1r", 2}, {"S4", 2}, {"S2", 1}, {"S3", 2}, {"S5", 1}, {"S6", 2}, {"S7", 2}, {"S8", 2}, {"S9", 2}}
	if tier == "thorough" {
		plan = []sb{{"S1", 3}, {"S1r", 3}, {"S4", 3}, {"S2", 2}, {"S3", 3}, {"S5", 3}, {"S6", 3}, {"S7", 3}, {"S8", 3}, {"S9", 3}}
	}
	for _, p := range plan {
		parts := 16
		if p.s == "S3" || p.s == "S7" {
			parts = 1
		}
		for k := 0; k < parts; k++ {
			emit(c10Case{Scenario: p.s, Bound: p.b, Part: k, Parts: parts})
		}
	}
}

func c10Run(c *Ctx, cs c10Case) {
	if c10SharedQ == nil {
		q, r := Compile(c10Pa)
		if q == nil {
			panic("harness: C10 profile Pa does not compile: " + r.ErrString())
		}
		c10SharedQ = q
		q2, r2 := Compile(c10Pd)
		if q2 == nil {
			panic("harness: C10 profile Pd does not compile: " + r2.ErrString())
		}
		c10SharedQ2 = q2
	}
	sc, ok := c10Scenarios()[cs.Scenario]
	if !ok {
		panic("harness: unknown scenario " + cs.Scenario)
	}
	// serial references: each body alone, no scheduler. The same serial pass is repeated before EVERY execution so
	// that process-wide state the implementation may keep (caches, "last configuration") is at the same point at the
	// start of every execution — and of a replay in a fresh process.
	serial := make([]CallRes, sc.n)
	runSerial := func() {
		for i := 0; i < sc.n; i++ {
			res := make([]CallRes, sc.n)
			sc.mk(res)[i]()
			if serial[i].Report == "" && serial[i].Err == nil {
				serial[i] = res[i]
			} else if res[i].Report != serial[i].Report || (res[i].Err == nil) != (serial[i].Err == nil) {
				// a call made ALONE after earlier concurrent executions no longer returns what it returned at first
				c.Violate("C10 a call run alone returns a different result after concurrent executions", fmt.Sprintf("scenario %s thread body %d (%s)\n%s", cs.Scenario, i, sc.descr[i], firstDiff(serial[i].Report, res[i].Report)), nil)
			}
			if res[i].Panic != nil {
				panic("harness: serial run panics: " + res[i].ErrString())
			}
		}
	}
	runSerial()
	check := func(x Exec) {
		c.Eval(1)
		rc := c10Case{Scenario: cs.Scenario, Bound: cs.Bound, Parts: 1, Replay: x.Choices}
		where := fmt.Sprintf("scenario %s %v schedule %s", cs.Scenario, sc.descr, schedString(x))
		if x.Deadlock {
			c.Violate("C10 deadlock", where, rc)
		}
		for i, r := range x.Results {
			if r.Panic != nil {
				c.Violate("C10 panic under concurrency at "+r.Panic.Sig(), fmt.Sprintf("%s\nthread %d: %s", where, i, r.Panic.Value), rc)
				continue
			}
			if (r.Err == nil) != (serial[i].Err == nil) {
				c.Violate("C10 a thread's success/failure differs from running alone", fmt.Sprintf("%s\nthread %d (%s): concurrent err=%v, alone err=%v", where, i, sc.descr[i], r.Err, serial[i].Err), rc)
			} else if r.Report != serial[i].Report {
				c.Violate("C10 a thread's report differs from running alone", fmt.Sprintf("%s\nthread %d (%s)\n%s", where, i, sc.descr[i], firstDiff(serial[i].Report, r.Report)), rc)
			}
		}
		if len(x.Races) > 0 {
			var vs []string
			for v := range x.Races {
				vs = append(vs, v)
			}
			sort.Strings(vs)
			for _, v := range vs {
				r := x.Races[v]
				c.Violate("C10 data race on "+v, fmt.Sprintf("%s\nunordered accesses: %s / %s", where, r.A, r.B), rc)
			}
		}
		outcome := ""
		for i, r := range x.Results {
			outcome += fmt.Sprintf("t%d:%v:%x ", i, r.Err == nil, h64(r.Report)%0xffff)
		}
		c.Outcome(cs.Scenario + " " + outcome)
		c.Max("points_in_one_execution", int64(len(x.Points)))
		c.Max("hooked_accesses_in_one_execution", int64(x.Accesses))
	}
	if cs.Replay != nil {
		runSerial()
		x := runExec(sc.mk, sc.n, cs.Replay, false)
		if x.Diverged != "" {
			panic("harness: replay diverged: " + x.Diverged)
		}
		// determinism self-check: the same schedule from the same starting point gives identical observations
		runSerial()
		y := runExec(sc.mk, sc.n, cs.Replay, false)
		if fmt.Sprint(x.Choices) != fmt.Sprint(y.Choices) || len(x.Results) != len(y.Results) {
			panic("harness: the same schedule produced different executions")
		}
		for i := range x.Results {
			if x.Results[i].Report != y.Results[i].Report {
				panic("harness: the same schedule produced different reports")
			}
		}
		check(x)
		return
	}
	e := &Explorer{Mk: sc.mk, N: sc.n, Bound: cs.Bound, Part: cs.Part, Parts: cs.Parts, Check: check, Stop: c.Expired, Pre: runSerial}
	e.Explore()
	if e.Capped {
		c.CapHit(fmt.Sprintf("C10 %s bound %d stopped by the soft deadline", cs.Scenario, cs.Bound))
	}
	c.Count("states", e.Executions)
	c.Count("transitions", e.Executions*int64(e.MaxPoints))
	c.Count("traces_validated_against_impl", e.Executions)
	c.Max("preemption_bound_"+cs.Scenario, int64(cs.Bound))
	c.Nontrivial(fmt.Sprintf("%s/%d", cs.Scenario, cs.Part))
	if cs.Part == 0 {
		sample := map[string]any{"scenario": cs.Scenario, "threads": sc.descr, "bound": cs.Bound, "choice_points_default_schedule": e.MaxPoints}
		if b, err := os.ReadFile(filepath.Join(os.Getenv("VERIF_WORK"), "instr", "sites.json")); err == nil {
			var sites []map[string]any
			json.Unmarshal(b, &sites)
			var keep []string
			for _, s := range sites {
				if !strings.Contains(fmt.Sprint(s["file"]), "peg.go") {
					keep = append(keep, fmt.Sprintf("%v %v:%v %v", s["kind"], s["file"], s["line"], s["what"]))
				}
			}
			sample["instrumented_sites_outside_generated_parser"] = keep
			sample["instrumented_sites_total"] = len(sites)
		}
		c.Sample(sample)
	}
}

// RacePass runs the scenario bodies free-running (real goroutines, no
// scheduler); it is meant for a binary built with -race and prints nothing
// itself — the race detector reports on stderr.
func RacePass(rounds int) {
	q, _ := Compile(c10Pa)
	c10SharedQ = q
	c10SharedQ2, _ = Compile(c10Pd)
	scs := c10Scenarios()
	names := make([]string, 0, len(scs))
	for n := range scs {
		names = append(names, n)
	}
	sort.Strings(names)
	for r := 0; r < rounds; r++ {
		for _, n := range names {
			sc := scs[n]
			// every body four times, all released together: an unrelated lock taken by both calls (in the engine, say)
			// orders a single pair of calls often enough to hide a race between them from a happens-before detector
			var wg sync.WaitGroup
			start := make(chan struct{})
			for k := 0; k < 4; k++ {
				res := make([]CallRes, sc.n)
				for _, b := range sc.mk(res) {
					wg.Add(1)
					go func(b func()) { defer wg.Done(); <-start; b() }(b)
				}
			}
			close(start)
			wg.Wait()
		}
	}
	// burst: many more concurrent callers than CPUs or any plausible pool size (a bounded resource taken twice on one
	// call path, a full work queue, ... only bite above a threshold). Every call must return what it returns alone.
	for _, n := range []int{17, 33, 65} {
		want := Validate(c10Pa, c10Data(3))
		got := make([]CallRes, n)
		var wg sync.WaitGroup
		start := make(chan struct{})
		for i := 0; i < n; i++ {
			wg.Add(1)
			go func(i int) {
				defer wg.Done()
				<-start
				if i%2 == 0 {
					got[i] = Validate(c10Pa, c10Data(3))
				} else {
					got[i] = ValidateCompiled(c10SharedQ, c10Data(3))
				}
			}(i)
		}
		done := make(chan struct{})
		go func() { wg.Wait(); close(done) }()
		close(start)
		// a hang is believed only on the runtime's own evidence (a goroutine parked for over a minute in the repository's
		// code while nothing is running), never on elapsed time alone
		finished := false
		for waited := 0; waited < 12 && !finished; waited++ {
			select {
			case <-done:
				finished = true
			case <-time.After(90 * time.Second):
				runtime.GC() // stamps the wait times
				select {
				case <-done:
					finished = true
				case <-time.After(75 * time.Second):
					st := allStacks()
					if fr := blockedInLibrary(st); fr != "" {
						fmt.Printf("BURST HANG: %d concurrent calls have not all returned; nothing is running and a goroutine has been parked for over a minute in %s\n%s\nEND BURST HANG\n", n, fr, tailStr(st, 6000))
						fmt.Println("racepass done")
						os.Exit(0)
					}
				}
			}
		}
		if !finished {
			fmt.Printf("BURST SLOW: %d concurrent calls did not finish in the time allowed and are still computing; no verdict\n", n)
			fmt.Println("racepass done")
			os.Exit(0)
		}
		for i := range got {
			if got[i].Report != want.Report || (got[i].Err == nil) != (want.Err == nil) {
				fmt.Printf("BURST DIFF: call %d of %d concurrent calls returns something else than alone: %s\nEND BURST DIFF\n", i, n, firstDiff(want.Report, got[i].Report))
				break
			}
		}
	}
	_ = verifrt.Active
	fmt.Println("racepass done")
}
