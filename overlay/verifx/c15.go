//go:build verif

package verifx

import (
	"bytes"
	"encoding/json"
	"fmt"
	"regexp"
	"sort"
	"strings"

	"gopkg.in/yaml.v3"
)

// C15 — verdicts do not depend on how the profile is written down.
// Explicit-state search: state = profile YAML text; transitions = meaning-preserving rewrites.

type c15Case struct {
	Profile int      `json:"profile"`
	Depth   int      `json:"depth"`
	Part    int      `json:"part"`
	Parts   int      `json:"parts"`
	Trace   []string `json:"trace,omitempty"`
}

const shapesNS = "http://a.ml/vocabularies/shapes#"

var c15Bases = []string{
	// 0: sibling keys at every mapping level, nested two levels deep, and/or with three operands
	`profile: c15 shapes
prefixes:
  ex: http://ex.org/
  shp: http://a.ml/vocabularies/shapes#
violation:
  - deep
  - logic
validations:
  deep:
    message: deep
    targetClass: ex.T
    propertyConstraints:
      ex.p1:
        minCount: 1
      ex.c:
        nested:
          propertyConstraints:
            ex.p4:
              minCount: 1
            ex.c:
              nested:
                propertyConstraints:
                  ex.p5:
                    minCount: 1
      shp.s1:
        in: [a, b]
        maxCount: 2
  logic:
    message: logic
    targetClass: ex.T
    or:
      - propertyConstraints:
          ex.p1:
            minCount: 1
      - and:
          - propertyConstraints:
              ex.p2:
                minCount: 1
          - propertyConstraints:
              ex.p3:
                minCount: 1
          - not:
              propertyConstraints:
                shp.s1:
                  minCount: 1
      - propertyConstraints:
          ex.c:
            atLeast:
              count: 2
              validation:
                propertyConstraints:
                  ex.p4:
                    minCount: 1
`,
	// 1: three validations over three levels, message placeholders, user prefix bound to a default namespace
	`profile: c15 levels
prefixes:
  shp: http://a.ml/vocabularies/shapes#
  ex: http://ex.org/
violation:
  - a
  - b
warning:
  - b
  - c
info:
  - c
  - ghost
validations:
  a:
    message: "{{ex.name}} has s1={{shp.s1}}"
    targetClass: ex.T
    propertyConstraints:
      shp.s1:
        minCount: 1
  b:
    message: b
    targetClass: ex.T
    propertyConstraints:
      ex.p2:
        minCount: 1
      ex.name:
        minLength: 4
        pattern: ^[a-z]+$
  c:
    message: c
    targetClass: ex.C
    propertyConstraints:
      ex.c^ / shp.s1:
        minCount: 1
      ex.p4 | ex.p5:
        minCount: 1
`,
	// 2: several quantified constraints under one propertyConstraints map
	`profile: c15 quantified siblings
prefixes:
  ex: http://ex.org/
violation:
  - sib
validations:
  sib:
    message: sib
    targetClass: ex.T
    propertyConstraints:
      ex.c:
        nested:
          propertyConstraints:
            ex.p4:
              minCount: 1
      ex.d:
        atLeast:
          count: 1
          validation:
            propertyConstraints:
              ex.p5:
                minCount: 1
      ex.c / ex.c:
        atMost:
          count: 0
          validation:
            propertyConstraints:
              ex.p5:
                minCount: 1
      ex.p1:
        minCount: 1
`,
	// 3: conditionals, negation, several constraints on one property, string values that equal sibling key names
	`profile: c15 conditionals
prefixes:
  ex: http://ex.org/
warning:
  - cond
violation:
  - neg
  - shadow
validations:
  cond:
    message: cond
    targetClass: ex.T
    if:
      propertyConstraints:
        ex.p1:
          minCount: 1
    then:
      propertyConstraints:
        ex.p2:
          minCount: 1
          maxCount: 1
    else:
      propertyConstraints:
        ex.c:
          minCount: 1
          nested:
            propertyConstraints:
              ex.p4:
                minCount: 1
  shadow:
    targetClass: ex.T
    message: targetClass
    propertyConstraints:
      ex.tag:
        minCount: 1
        pattern: minCount
  neg:
    message: neg
    targetClass: ex.T
    not:
      and:
        - propertyConstraints:
            ex.p2:
              minCount: 1
        - propertyConstraints:
            ex.p3:
              minCount: 1
`,
}

func init() {
	c15Bases = append(c15Bases,
		// 4: a custom domain property (annotation) reached through a user prefix bound to the api-extension namespace
		`profile: c15 custom domain property
prefixes:
  ext: http://a.ml/vocabularies/api-extension#
  ex: http://ex.org/
violation:
  - ann
  - plain
validations:
  ann:
    message: wadus annotation needs p4
    targetClass: ex.T
    propertyConstraints:
      ext.wadus / ex.p4:
        minCount: 1
  plain:
    message: plain
    targetClass: ex.T
    propertyConstraints:
      ex.p1:
        minCount: 1
`)
}

func init() {
	c15Bases = append(c15Bases,
		// 5: and/or whose operands are embedded Rego snippets (same path, same default message, different code)
		`profile: c15 rego operands
prefixes:
  ex: http://ex.org/
violation:
  - both
warning:
  - either
validations:
  both:
    message: both
    targetClass: ex.T
    and:
      - rego: "$result = (count(object.get($node, \"http://ex.org/p1\", [])) > 0)"
      - rego: "$result = (count(object.get($node, \"http://ex.org/p2\", [])) > 0)"
  either:
    message: either
    targetClass: ex.T
    or:
      - rego: "$result = (count(object.get($node, \"http://ex.org/p3\", [])) > 0)"
      - rego: "$result = (count(object.get($node, \"http://ex.org/p1\", [])) > 0)"
      - propertyConstraints:
          ex.num:
            minExclusive: 2.0000001
      - propertyConstraints:
          ex.num:
            minExclusive: 7.0000002
`)
}

func init() {
	// 6: many quantified siblings in one validation (variable-name cliffs), exactly one of them violated
	var b strings.Builder
	b.WriteString("profile: c15 many siblings\nprefixes:\n  ex: http://ex.org/\nviolation:\n  - many\nvalidations:\n  many:\n    message: many\n    targetClass: ex.R\n    propertyConstraints:\n")
	for i := 1; i <= 28; i++ {
		fmt.Fprintf(&b, "      ex.k%d:\n        nested:\n          propertyConstraints:\n            ex.p4:\n              minCount: 1\n", i)
	}
	c15Bases = append(c15Bases, b.String())
}

func init() {
	// 7: the NAME of a default prefix (core) bound by the user to another namespace, next to a user alias for the
	// default namespace itself: renaming `core` away frees the name, after which the alias may be replaced by the default
	c15Bases = append(c15Bases, `profile: c15 shadowed default prefix name
prefixes:
  core: http://ex.org/acme#
  amf: http://a.ml/vocabularies/core#
  ex: http://ex.org/
violation:
  - named
warning:
  - owned
validations:
  named:
    message: needs a core name, has {{amf.name}}
    targetClass: ex.T
    propertyConstraints:
      amf.name:
        minCount: 1
  owned:
    message: needs an acme owner, has {{core.owner}}
    targetClass: ex.T
    propertyConstraints:
      core.owner:
        minCount: 1
`)
}

func init() {
	// 8: mappings that carry several body keys at once (and + or, and + propertyConstraints-less not, if/then next to
	// and): whichever of them the parser honours, it must be the same one however the keys are ordered
	c15Bases = append(c15Bases, `profile: c15 several body keys
prefixes:
  ex: http://ex.org/
violation:
  - both
warning:
  - inner
validations:
  both:
    message: and next to or
    targetClass: ex.T
    and:
      - propertyConstraints:
          ex.p1:
            minCount: 1
      - propertyConstraints:
          ex.p2:
            minCount: 1
    or:
      - propertyConstraints:
          ex.p3:
            minCount: 1
      - propertyConstraints:
          ex.p1:
            maxCount: 0
  inner:
    message: the same inside nested and not
    targetClass: ex.T
    propertyConstraints:
      ex.c:
        nested:
          or:
            - propertyConstraints:
                ex.p4:
                  minCount: 1
            - propertyConstraints:
                ex.p5:
                  minCount: 1
          and:
            - propertyConstraints:
                ex.p4:
                  minCount: 1
            - not:
                and:
                  - propertyConstraints:
                      ex.p5:
                        minCount: 1
                or:
                  - propertyConstraints:
                      ex.p4:
                        maxCount: 0
`)
}

func init() {
	// 9: YAML anchors and merge keys next to a mapping's own keys: whatever the parser makes of `<<` (this one ignores
	// it; an alias as a whole constraint block is rejected, so it cannot be part of a base profile), key order must not matter
	c15Bases = append(c15Bases, `profile: c15 anchors and merge keys
prefixes:
  ex: http://ex.org/
definitions:
  defaults: &defaults
    minCount: 1
    maxCount: 1
  loose: &loose
    maxCount: 5
    minCount: 0
violation:
  - merged
validations:
  merged:
    message: own keys next to a merge key
    targetClass: ex.T
    propertyConstraints:
      ex.p1:
        minCount: 2
        <<: *defaults
      ex.c:
        <<: *defaults
        maxCount: 3
`)
}

const apiExtNS = "http://a.ml/vocabularies/api-extension#"
const coreNS = "http://a.ml/vocabularies/core#"

// c15Data: one graph exercised by all base profiles.
func c15Graph() *Graph {
	g := &Graph{}
	for kind := 0; kind < 4; kind++ {
		n := g.Add(fmt.Sprintf("%sc%d", EX, kind), EX+"C")
		childKindProps(n, kind)
		n.P(coreNS+"extensionName", []string{"wadus", "other", "wadus", "wadus"}[kind])
		if kind >= 2 {
			n.P(EX+"c", Ref(fmt.Sprintf("%sc%d", EX, kind-2)))
		}
	}
	// for base profile 6: roots r<j> whose j-th link leads to a child without p4 (c0), all others to c1 (has p4)
	for _, j := range []int{11, 12, 24, 25, 26, 27} {
		r := g.Add(fmt.Sprintf("%sr%d", EX, j), EX+"R")
		for k := 1; k <= 28; k++ {
			if k == j {
				r.P(fmt.Sprintf("%sk%d", EX, k), Ref(EX+"c0"))
			} else {
				r.P(fmt.Sprintf("%sk%d", EX, k), Ref(EX+"c1"))
			}
		}
	}
	names := []string{"zero", "one", "Two", "three", "x", "five5", "six", "seven"}
	for m := 0; m < 8; m++ {
		n := g.Add(nid(m), EX+"T")
		n.P(EX+"name", names[m])
		n.P(EX+"num", m)
		if m%2 == 1 {
			n.P(EX+"acme#owner", "acme owner")
		}
		if m%3 == 0 {
			n.P(coreNS+"name", "core name")
		}
		if m%2 == 0 {
			n.P(EX+"tag", "minCount-ok") // a scalar VALUE in the profile equals a sibling KEY name (`pattern: minCount`)
		}
		for i := 0; i < 3; i++ {
			if m&(1<<i) != 0 {
				n.P(fmt.Sprintf("%sp%d", EX, i+1), "v")
			}
		}
		switch m % 4 {
		case 1:
			n.P(EX+"c", Ref(EX+"c3"))
		case 2:
			n.P(EX+"c", Ref(EX+"c0"), Ref(EX+"c1"))
			n.P(EX+"d", Ref(EX+"c2"))
		case 3:
			n.P(EX+"c", Ref(EX+"c1"), Ref(EX+"c2"), Ref(EX+"c3"))
			n.P(EX+"d", Ref(EX+"c0"))
		}
		if m >= 2 {
			// an annotation: the property named by the annotation's id links to the value node
			ann := fmt.Sprintf("%sann%d", EX, m)
			n.P(docNS+"customDomainProperties", Ref(ann))
			n.P(ann, Ref(fmt.Sprintf("%sc%d", EX, m%4)))
		}
		switch m % 3 {
		case 0:
			n.P(shapesNS+"s1", "a")
		case 1:
			n.P(shapesNS+"s1", "a", "z", "b")
		}
	}
	return g
}

type c15State struct {
	root   *yaml.Node
	indent int
	crlf   bool
	trail  bool
}

func (s c15State) text() string {
	var b bytes.Buffer
	enc := yaml.NewEncoder(&b)
	enc.SetIndent(s.indent)
	enc.Encode(s.root)
	enc.Close()
	t := b.String()
	if s.trail {
		lines := strings.Split(t, "\n")
		for i, l := range lines {
			if l != "" && i%2 == 0 {
				lines[i] = l + "  "
			}
		}
		t = strings.Join(lines, "\n")
	}
	if s.crlf {
		t = strings.ReplaceAll(t, "\n", "\r\n")
	}
	return t
}

type c15Succ struct {
	label string
	st    c15State
}

var compactRe = regexp.MustCompile(`([A-Za-z][A-Za-z0-9_-]*)\.([A-Za-z][A-Za-z0-9_]*)`)

// c15Successors enumerates every applicable (operator, position).
// c15SwapsOnly: for the many-siblings profile only the order rewrites are explored (each state costs a 28-quantifier
// compilation; quoting/style rewrites of it add nothing the other profiles do not cover)
var c15SwapsOnly = false

func c15Successors(s c15State) []c15Succ {
	all := c15SuccessorsAll(s)
	if !c15SwapsOnly {
		return all
	}
	var out []c15Succ
	for _, x := range all {
		if strings.HasPrefix(x.label, "swap ") {
			out = append(out, x)
		}
	}
	return out
}

func c15SuccessorsAll(s c15State) []c15Succ {
	var out []c15Succ
	mut := func(label string, f func(r *yaml.Node)) {
		c := yamlClone(s.root)
		f(c)
		out = append(out, c15Succ{label, c15State{c, s.indent, s.crlf, s.trail}})
	}
	get := func(r *yaml.Node, path []int) *yaml.Node {
		n := r
		for _, i := range path {
			n = n.Content[i]
		}
		return n
	}
	scalarCount := 0
	var walk func(n *yaml.Node, path []int, label string, isKey bool)
	walk = func(n *yaml.Node, path []int, label string, isKey bool) {
		p := append([]int{}, path...)
		switch n.Kind {
		case yaml.DocumentNode:
			for i, k := range n.Content {
				walk(k, append(p, i), label, false)
			}
		case yaml.MappingNode:
			// swap adjacent keys
			for i := 0; i+3 < len(n.Content); i += 2 {
				ii := i
				mut(fmt.Sprintf("swap keys %s/%s<->%s", label, n.Content[i].Value, n.Content[i+2].Value), func(r *yaml.Node) {
					m := get(r, p)
					m.Content[ii], m.Content[ii+2] = m.Content[ii+2], m.Content[ii]
					m.Content[ii+1], m.Content[ii+3] = m.Content[ii+3], m.Content[ii+1]
				})
			}
			if len(n.Content) > 0 {
				mut("flow<->block mapping "+label, func(r *yaml.Node) { m := get(r, p); m.Style ^= yaml.FlowStyle })
			}
			for i := 0; i+1 < len(n.Content); i += 2 {
				walk(n.Content[i], append(p, i), label+"/"+n.Content[i].Value+"#key", true)
				walk(n.Content[i+1], append(p, i+1), label+"/"+n.Content[i].Value, false)
			}
		case yaml.SequenceNode:
			for i := 0; i+1 < len(n.Content); i++ {
				ii := i
				mut(fmt.Sprintf("swap items %s[%d]<->[%d]", label, i, i+1), func(r *yaml.Node) {
					q := get(r, p)
					q.Content[ii], q.Content[ii+1] = q.Content[ii+1], q.Content[ii]
				})
			}
			if len(n.Content) > 0 {
				mut("flow<->block sequence "+label, func(r *yaml.Node) { q := get(r, p); q.Style ^= yaml.FlowStyle })
			}
			for i, k := range n.Content {
				walk(k, append(p, i), fmt.Sprintf("%s[%d]", label, i), false)
			}
		case yaml.ScalarNode:
			scalarCount++
			if n.Tag == "!!str" {
				for _, st := range []yaml.Style{yaml.DoubleQuotedStyle, yaml.SingleQuotedStyle, 0} {
					if n.Style&(yaml.DoubleQuotedStyle|yaml.SingleQuotedStyle) == st {
						continue
					}
					sst := st
					name := map[yaml.Style]string{yaml.DoubleQuotedStyle: "double", yaml.SingleQuotedStyle: "single", 0: "plain"}[st]
					mut("quote "+name+" "+label, func(r *yaml.Node) {
						q := get(r, p)
						q.Style = q.Style&^(yaml.DoubleQuotedStyle|yaml.SingleQuotedStyle) | sst
					})
				}
			}
			if scalarCount%5 == 1 {
				mut("comment before "+label, func(r *yaml.Node) { get(r, p).HeadComment = "a comment: with [brackets] and {braces}" })
			}
		}
	}
	walk(s.root, nil, "", false)
	// consistent renaming of a user prefix / use of a default prefix bound to the same namespace
	doc := s.root.Content[0]
	var prefixes *yaml.Node
	for i := 0; i+1 < len(doc.Content); i += 2 {
		if doc.Content[i].Value == "prefixes" {
			prefixes = doc.Content[i+1]
		}
	}
	if prefixes != nil {
		for i := 0; i+1 < len(prefixes.Content); i += 2 {
			old := prefixes.Content[i].Value
			ns := prefixes.Content[i+1].Value
			targets := []string{"zz9"}
			for _, dn := range []string{"shapes", "raml-shapes", "apiExt", "core", "doc"} {
				if c15Defaults[dn] == ns {
					targets = append(targets, dn)
				}
			}
			for _, nw := range targets {
				if nw == old {
					continue
				}
				taken := false
				for j := 0; j+1 < len(prefixes.Content); j += 2 {
					if prefixes.Content[j].Value == nw {
						taken = true
					}
				}
				if taken {
					continue
				}
				_, isDef := c15Defaults[nw]
				o, w, isDefault := old, nw, isDef
				mut(fmt.Sprintf("rename prefix %s->%s", o, w), func(r *yaml.Node) {
					var rec func(n *yaml.Node, inPrefixes bool)
					rec = func(n *yaml.Node, inPrefixes bool) {
						// (embedded Rego is code, not profile vocabulary: it is never rewritten — inPrefixes doubles as "leave alone")
						if n.Kind == yaml.ScalarNode && !inPrefixes {
							n.Value = compactRe.ReplaceAllStringFunc(n.Value, func(m string) string {
								if strings.HasPrefix(m, o+".") {
									return w + m[len(o):]
								}
								return m
							})
						}
						for ci, ch := range n.Content {
							isP := inPrefixes
							if n.Kind == yaml.MappingNode && ci%2 == 1 && n.Content[ci-1].Value == "prefixes" && n == r.Content[0] {
								isP = true
							}
							if n.Kind == yaml.MappingNode && ci%2 == 1 {
								switch n.Content[ci-1].Value {
								case "rego", "regoModule", "code", "rego_extensions":
									isP = true
								}
							}
							rec(ch, isP)
						}
					}
					rec(r, false)
					pm := func() *yaml.Node {
						d := r.Content[0]
						for k := 0; k+1 < len(d.Content); k += 2 {
							if d.Content[k].Value == "prefixes" {
								return d.Content[k+1]
							}
						}
						return nil
					}()
					for k := 0; k+1 < len(pm.Content); k += 2 {
						if pm.Content[k].Value == o {
							if isDefault {
								// the default prefix needs no declaration: drop the user's
								pm.Content = append(pm.Content[:k], pm.Content[k+2:]...)
							} else {
								pm.Content[k].Value = w
							}
							break
						}
					}
				})
			}
		}
	}
	// indentation, line ends, trailing blanks
	for _, ind := range []int{2, 4, 3} {
		if ind != s.indent {
			out = append(out, c15Succ{fmt.Sprintf("indent %d", ind), c15State{s.root, ind, s.crlf, s.trail}})
		}
	}
	out = append(out, c15Succ{fmt.Sprintf("crlf=%v", !s.crlf), c15State{s.root, s.indent, !s.crlf, s.trail}})
	out = append(out, c15Succ{fmt.Sprintf("trailing-blanks=%v", !s.trail), c15State{s.root, s.indent, s.crlf, !s.trail}})
	return out
}

// c15Canon decodes a profile text and returns a canonical rendering that is
// invariant exactly under the rewrites above: compact IRIs expanded with the
// declared + default prefixes, lists sorted, maps unordered, prefixes dropped.
var c15Defaults = map[string]string{"shapes": shapesNS, "raml-shapes": shapesNS, "apiExt": apiExtNS, "core": coreNS, "doc": docNS}

func c15Canon(text string) (string, error) {
	var v any
	if err := yaml.Unmarshal([]byte(text), &v); err != nil {
		return "", err
	}
	top, ok := v.(map[string]any)
	if !ok {
		return "", fmt.Errorf("profile is not a mapping")
	}
	pre := map[string]string{}
	for k, ns := range c15Defaults {
		pre[k] = ns
	}
	if pm, ok := top["prefixes"].(map[string]any); ok {
		for k, ns := range pm {
			pre[k] = fmt.Sprint(ns)
		}
	}
	delete(top, "prefixes")
	expand := func(s string) string {
		return compactRe.ReplaceAllStringFunc(s, func(m string) string {
			i := strings.Index(m, ".")
			if ns, ok := pre[m[:i]]; ok {
				return "<" + ns + m[i+1:] + ">"
			}
			return m
		})
	}
	var canon func(x any) any
	canon = func(x any) any {
		switch t := x.(type) {
		case map[string]any:
			out := map[string]any{}
			for k, e := range t {
				switch k {
				case "rego", "regoModule", "code", "rego_extensions":
					out[k] = e // code: compared verbatim
				default:
					out[expand(k)] = canon(e)
				}
			}
			return out
		case []any:
			items := make([]string, len(t))
			for i, e := range t {
				b, _ := json.Marshal(canon(e))
				items[i] = string(b)
			}
			sort.Strings(items)
			return items
		case string:
			return expand(t)
		}
		return x
	}
	b, _ := json.Marshal(canon(top))
	return string(b), nil
}

func init() {
	Register(Meta{
		ID: "C15", Level: "model_checking", LongCases: true,
		Rule:        "state = profile YAML text; initial states = 10 base profiles (among them: sibling keys at every mapping level with nested two levels and and/or of three operands; three validations over three levels with placeholders and a user prefix bound to a default namespace; several quantified constraints under one propertyConstraints map; conditionals/negation/several constraints on one property; a custom domain property through a user prefix; Rego operands; 28 quantified siblings; the name of a default prefix bound to another namespace next to a user alias of the default namespace; mappings that carry `and` and `or` at once; anchors, aliases and merge keys); transitions, every applicable (operator, position): swap two adjacent keys of any mapping, swap two adjacent items of any sequence (level lists, and/or operands, value lists), rename a user prefix consistently, replace a user prefix by a default prefix bound to the same namespace, plain/single/double quoting of any string scalar (keys included), flow<->block style of any collection, comment insertion, indent width, CRLF line ends, trailing blanks. Depth-bounded search deduplicated on the text; every successor is first validated to denote the same abstract profile (canonical form with IRIs expanded and collections unordered); every state's (conforms, result set with messages) on a data graph must equal the base spelling's.",
		Assumptions: []string{"block scalars do not occur in the base profiles (trailing-blank and CRLF rewrites would change them)"},
	}, c15Gen, c15Run)
}

func c15Gen(tier string, emit func(c15Case)) {
	depth := 1
	parts := 4
	if tier == "thorough" {
		depth, parts = 2, 16
	}
	for p := range c15Bases {
		d := depth
		if tier == "quick" && (p == 2 || p == 7) {
			d = 2 // the sibling-quantifier profile is small: all pairs of rewrites
			for k := 0; k < 16; k++ {
				emit(c15Case{Profile: p, Depth: d, Part: k, Parts: 16})
			}
			continue
		}
		for k := 0; k < parts; k++ {
			emit(c15Case{Profile: p, Depth: d, Part: k, Parts: parts})
		}
	}
}

var c15Data string

func c15Verdict(c *Ctx, text string) (string, CallRes) {
	if c15Data == "" {
		c15Data = c15Graph().FlatJSONLD()
	}
	r := Validate(text, c15Data)
	c.Eval(1)
	if r.Err != nil || r.Panic != nil {
		return "", r
	}
	rep, err := ParseReport(r.Report)
	if err != nil {
		return "", CallRes{Err: err}
	}
	return rep.Verdict(), r
}

func c15Run(c *Ctx, cs c15Case) {
	c15SwapsOnly = cs.Profile == 6
	var root yaml.Node
	if err := yaml.Unmarshal([]byte(c15Bases[cs.Profile]), &root); err != nil {
		panic("harness: base profile does not parse: " + err.Error())
	}
	init := c15State{root: &root, indent: 2}
	baseText := init.text()
	baseCanon, err := c15Canon(baseText)
	if err != nil {
		panic("harness: " + err.Error())
	}
	baseVerdict, r0 := c15Verdict(c, baseText)
	if r0.Err != nil || r0.Panic != nil {
		c.Violate("C15 base profile rejected: "+firstLine(r0.ErrString()), baseText, nil)
		return
	}
	if strings.Count(baseVerdict, "|") < 6 || (cs.Profile == 4 && !strings.Contains(baseVerdict, "|ann|")) {
		panic("harness: C15 base profile produces too few results: " + baseVerdict)
	}
	check := func(st c15State, trace []string) {
		text := st.text()
		cn, err := c15Canon(text)
		if err != nil || cn != baseCanon {
			panic(fmt.Sprintf("harness: rewrite sequence %v does not preserve the abstract profile (err=%v)\n%s\nbase:  %s\nthis:  %s", trace, err, text, baseCanon, cn))
		}
		v, r := c15Verdict(c, text)
		rc := c15Case{Profile: cs.Profile, Depth: len(trace), Parts: 1, Trace: trace}
		op := trace[len(trace)-1]
		if i := strings.Index(op, " "); i > 0 {
			op = op[:i]
		}
		if r.Panic != nil || r.Err != nil {
			c.Violate("C15 equivalent spelling rejected (last rewrite: "+op+"): "+firstLine(r.ErrString()), fmt.Sprintf("rewrites %v\n%s", trace, text), rc)
			return
		}
		if v != baseVerdict {
			c.Violate("C15 verdict changes with the spelling (last rewrite: "+op+")", fmt.Sprintf("profile %d rewrites %v\nbase: %s\nthis: %s\ntext:\n%s", cs.Profile, trace, tailStr(baseVerdict, 1500), tailStr(v, 1500), text), rc)
		}
		c.Outcome(fmt.Sprintf("profile %d verdict-class %d", cs.Profile, h64(v)%1000))
	}
	if len(cs.Trace) > 0 {
		st := init
		for _, lab := range cs.Trace {
			found := false
			for _, s := range c15Successors(st) {
				if s.label == lab {
					st, found = s.st, true
					break
				}
			}
			if !found {
				panic("harness: replay trace step not applicable: " + lab)
			}
		}
		check(st, cs.Trace)
		return
	}
	seenAt := map[uint64]int{h64(baseText): 0}
	var states, transitions int64
	if cs.Part == 0 {
		states++
	}
	var dfs func(st c15State, depth int, trace []string)
	dfs = func(st c15State, depth int, trace []string) {
		if depth == cs.Depth || c.Expired() {
			return
		}
		for _, s := range c15Successors(st) {
			text := s.st.text()
			if strings.Contains(text, "&") {
				// a swap that moves an anchor's definition behind one of its aliases does not yield a YAML document at all
				// ("unknown anchor"): not a rewriting of the profile, so not a successor
				if _, err := c15Canon(text); err != nil && strings.Contains(err.Error(), "unknown anchor") {
					continue
				}
			}
			h := h64(text)
			owned := int(h%uint64(cs.Parts)) == cs.Part
			tr := append(append([]string{}, trace...), s.label)
			if owned {
				transitions++
			}
			prev, seen := seenAt[h]
			if !seen {
				seenAt[h] = depth + 1
				if owned {
					states++
					check(s.st, tr)
				}
				dfs(s.st, depth+1, tr)
			} else if depth+1 < prev {
				seenAt[h] = depth + 1
				dfs(s.st, depth+1, tr)
			}
		}
	}
	dfs(init, 0, nil)
	if c.Expired() {
		c.CapHit("C15 search stopped by the soft deadline")
	}
	c.Count("states", states)
	c.Count("transitions", transitions)
	c.Count("traces_validated_against_impl", states)
	c.Max("depth", int64(cs.Depth))
	c.Nontrivial(fmt.Sprintf("%d/%d/%d", cs.Profile, cs.Part, cs.Depth))
	if cs.Part == 0 {
		succ := c15Successors(init)
		var labels []string
		for i, s := range succ {
			if i%9 == 0 && len(labels) < 10 {
				labels = append(labels, s.label)
			}
		}
		c.Sample(map[string]any{"profile": cs.Profile, "depth": cs.Depth, "first_level_successors": len(succ), "some_rewrites": labels})
	}
}
