//go:build verif

package verifx

import (
	"encoding/json"
	"fmt"
	"sort"
	"strings"

	"gopkg.in/yaml.v3"
)

// ---- structured single-point mutations of a YAML document -------------------

type Mutant struct {
	Text string
	Desc string
}

func yamlClone(n *yaml.Node) *yaml.Node {
	c := *n
	c.Content = make([]*yaml.Node, len(n.Content))
	for i, k := range n.Content {
		c.Content[i] = yamlClone(k)
	}
	return &c
}

func yamlScalar(tag, val string) *yaml.Node {
	return &yaml.Node{Kind: yaml.ScalarNode, Tag: tag, Value: val}
}

func yamlReplacements() []struct {
	name string
	mk   func() *yaml.Node
} {
	return []struct {
		name string
		mk   func() *yaml.Node
	}{
		{"null", func() *yaml.Node { return yamlScalar("!!null", "null") }},
		{"empty-string", func() *yaml.Node {
			return &yaml.Node{Kind: yaml.ScalarNode, Tag: "!!str", Value: "", Style: yaml.DoubleQuotedStyle}
		}},
		{"0", func() *yaml.Node { return yamlScalar("!!int", "0") }},
		{"-1", func() *yaml.Node { return yamlScalar("!!int", "-1") }},
		{"1.5", func() *yaml.Node { return yamlScalar("!!float", "1.5") }},
		{"true", func() *yaml.Node { return yamlScalar("!!bool", "true") }},
		{"str", func() *yaml.Node { return yamlScalar("!!str", "zzz") }},
		{"empty-list", func() *yaml.Node { return &yaml.Node{Kind: yaml.SequenceNode, Tag: "!!seq", Style: yaml.FlowStyle} }},
		{"empty-map", func() *yaml.Node { return &yaml.Node{Kind: yaml.MappingNode, Tag: "!!map", Style: yaml.FlowStyle} }},
		{"map", func() *yaml.Node {
			return &yaml.Node{Kind: yaml.MappingNode, Tag: "!!map", Content: []*yaml.Node{yamlScalar("!!str", "k"), yamlScalar("!!str", "v")}}
		}},
		{"list-of-str", func() *yaml.Node {
			return &yaml.Node{Kind: yaml.SequenceNode, Tag: "!!seq", Content: []*yaml.Node{yamlScalar("!!str", "zzz")}}
		}},
		{"list-of-map", func() *yaml.Node {
			return &yaml.Node{Kind: yaml.SequenceNode, Tag: "!!seq", Content: []*yaml.Node{{Kind: yaml.MappingNode, Tag: "!!map"}}}
		}},
		{"bad-path", func() *yaml.Node { return yamlScalar("!!str", "(ex.a") }},
		{"unknown-prefix", func() *yaml.Node { return yamlScalar("!!str", "nope.x") }},
	}
}

// YAMLMutants returns every single-point structured mutation of the document.
func YAMLMutants(src string) []Mutant {
	var root yaml.Node
	if err := yaml.Unmarshal([]byte(src), &root); err != nil {
		panic("seed does not parse: " + err.Error())
	}
	var out []Mutant
	emit := func(desc string, mutate func(r *yaml.Node)) {
		c := yamlClone(&root)
		mutate(c)
		b, err := yaml.Marshal(c)
		if err != nil {
			return
		}
		out = append(out, Mutant{Text: string(b), Desc: desc})
	}
	// address nodes by child-index path
	var walk func(n *yaml.Node, path []int, label string)
	get := func(r *yaml.Node, path []int) *yaml.Node {
		n := r
		for _, i := range path {
			n = n.Content[i]
		}
		return n
	}
	walk = func(n *yaml.Node, path []int, label string) {
		p := append([]int{}, path...)
		switch n.Kind {
		case yaml.DocumentNode:
			for i, k := range n.Content {
				walk(k, append(p, i), label)
			}
			return
		case yaml.MappingNode:
			for i := 0; i+1 < len(n.Content); i += 2 {
				key := n.Content[i].Value
				ki := i
				lab := label + "/" + key
				emit("delete key "+lab, func(r *yaml.Node) {
					m := get(r, p)
					m.Content = append(m.Content[:ki], m.Content[ki+2:]...)
				})
				emit("rename key "+lab, func(r *yaml.Node) { get(r, p).Content[ki].Value = key + "X" })
				emit("duplicate key "+lab, func(r *yaml.Node) {
					m := get(r, p)
					m.Content = append(m.Content, yamlClone(m.Content[ki]), yamlClone(m.Content[ki+1]))
				})
				emit("key becomes bad path "+lab, func(r *yaml.Node) { get(r, p).Content[ki].Value = "(ex.a" })
				emit("key becomes unknown prefix "+lab, func(r *yaml.Node) { get(r, p).Content[ki].Value = "nope.x" })
				emit("key becomes a sequence "+lab, func(r *yaml.Node) {
					m := get(r, p)
					m.Content[ki] = &yaml.Node{Kind: yaml.SequenceNode, Tag: "!!seq", Style: yaml.FlowStyle, Content: []*yaml.Node{yamlScalar("!!str", "a"), yamlScalar("!!str", "b")}}
				})
				// anchors and aliases: the value of this key anchored and (a) aliased by a new sibling key, (b) aliased
				// from inside itself (a cyclic node graph, which yaml.v3 accepts), (c) used as the value of its own key again
				if v := n.Content[i+1]; v.Kind == yaml.MappingNode || v.Kind == yaml.SequenceNode {
					emit("value anchored and aliased by a sibling "+lab, func(r *yaml.Node) {
						m := get(r, p)
						v := m.Content[ki+1]
						v.Anchor = "anc"
						m.Content = append(m.Content, yamlScalar("!!str", key+"Alias"), &yaml.Node{Kind: yaml.AliasNode, Alias: v, Value: "anc"})
					})
					emit("value anchored and aliased from inside itself "+lab, func(r *yaml.Node) {
						v := get(r, p).Content[ki+1]
						v.Anchor = "anc"
						al := &yaml.Node{Kind: yaml.AliasNode, Alias: v, Value: "anc"}
						if v.Kind == yaml.MappingNode {
							v.Content = append(v.Content, yamlScalar("!!str", key), al)
						} else {
							v.Content = append(v.Content, al)
						}
					})
				}
				// the value replaced by a mapping / a sequence that contains only itself under the same key (the smallest
				// cyclic node graph at this position: a recursive descent through this key never bottoms out)
				emit("value replaced by a self-containing mapping "+lab, func(r *yaml.Node) {
					m := get(r, p)
					v := &yaml.Node{Kind: yaml.MappingNode, Tag: "!!map", Anchor: "cyc"}
					v.Content = []*yaml.Node{yamlScalar("!!str", key), {Kind: yaml.AliasNode, Alias: v, Value: "cyc"}}
					m.Content[ki+1] = v
				})
				emit("value replaced by a self-containing sequence "+lab, func(r *yaml.Node) {
					m := get(r, p)
					v := &yaml.Node{Kind: yaml.SequenceNode, Tag: "!!seq", Anchor: "cyc"}
					v.Content = []*yaml.Node{{Kind: yaml.AliasNode, Alias: v, Value: "cyc"}}
					m.Content[ki+1] = v
				})
				emit("key becomes empty "+lab, func(r *yaml.Node) {
					k := get(r, p).Content[ki]
					k.Value, k.Style = "", yaml.DoubleQuotedStyle
				})
				walk(n.Content[i+1], append(p, i+1), lab)
			}
		case yaml.SequenceNode:
			for i, k := range n.Content {
				ii := i
				lab := fmt.Sprintf("%s[%d]", label, i)
				emit("delete item "+lab, func(r *yaml.Node) {
					s := get(r, p)
					s.Content = append(s.Content[:ii], s.Content[ii+1:]...)
				})
				walk(k, append(p, i), lab)
			}
		}
		if len(p) == 0 {
			return
		}
		for _, rep := range yamlReplacements() {
			rp := rep
			emit("replace "+label+" by "+rp.name, func(r *yaml.Node) {
				parent := get(r, p[:len(p)-1])
				parent.Content[p[len(p)-1]] = rp.mk()
			})
		}
	}
	walk(&root, nil, "")
	// whole-document specials
	for _, s := range []struct{ d, t string }{
		{"empty document", ""}, {"only a comment", "# nothing\n"}, {"document marker only", "---\n"},
		{"multi-document", src + "\n---\n" + src}, {"tab indentation", strings.ReplaceAll(src, "  ", "\t")},
		{"top-level scalar", "42\n"}, {"top-level list", "- a\n- b\n"}, {"anchors", "a: &x {profile: p}\nprofile: *x\nvalidations: *x\n"},
		{"alias to self", "a: &a [*a]\n"}, {"unterminated quote", "profile: \"abc\n"}, {"binary tag", "profile: !!binary |\n  AAAA\nvalidations: {}\n"},
		{"merge key", "base: &b {profile: p}\n<<: *b\nvalidations: {}\n"},
	} {
		out = append(out, Mutant{Text: s.t, Desc: "special: " + s.d})
	}
	// embedded Rego that defines rules named like the ones the translator generates and the report is read from
	for _, ext := range []string{"violation = 5", "violation = [5]", "violation = [{\"a\": 1}]", "warning = {}", "info = \"x\"", "profile = 1", "report = 5", "report[\"profile\"] = 7",
		"default violation = []", "violation[x] { x := 1 }", "find = 1", "trace = 2", "nodes_array = 3", "path_rule = 4", "target_class[x] = y { x := 1; y := 2 }", "package other"} {
		out = append(out, Mutant{Text: src + "\nrego_extensions: |\n  " + ext + "\n", Desc: "special: rego_extensions redefines " + ext})
	}
	// embedded Rego with n errors of one kind, n on both sides of the engine's error limit (10) and far beyond
	for _, n := range []int{1, 9, 10, 11, 12, 40, 200} {
		for _, kind := range []struct{ d, f string }{
			{"unsafe variables", "c17_helper_%d(c17x) = c17y { c17y := c17x + c17_unbound_%d }"},
			{"undefined functions", "c17_helper_%d(c17x) = c17y { c17y := c17_no_such_%d(c17x) }"},
			{"type errors", "c17_helper_%d(c17x) = c17y { c17y := count(%d) }"},
			{"conflicting rules", "c17_value_%d = %d\n  c17_value_0 = 1"},
		} {
			var b strings.Builder
			for i := 0; i < n; i++ {
				fmt.Fprintf(&b, "  "+kind.f+"\n", i, i)
			}
			out = append(out, Mutant{Text: src + "\nrego_extensions: |\n" + b.String(), Desc: fmt.Sprintf("special: rego_extensions with %d %s", n, kind.d)})
		}
	}
	return out
}

// ---- structured single-point mutations of a JSON document -------------------

func jsonReplacements() []struct {
	name string
	v    func() any
} {
	return []struct {
		name string
		v    func() any
	}{
		{"null", func() any { return nil }},
		{"empty-string", func() any { return "" }},
		{"0", func() any { return 0 }},
		{"1.5", func() any { return 1.5 }},
		{"true", func() any { return true }},
		{"str", func() any { return "zzz" }},
		{"empty-list", func() any { return []any{} }},
		{"empty-map", func() any { return map[string]any{} }},
		{"id-object", func() any { return map[string]any{"@id": "http://ex.org/dangling"} }},
		{"value-object", func() any { return map[string]any{"@value": "v", "@type": "http://ex.org/dt"} }},
		{"list-object", func() any { return map[string]any{"@list": []any{"a", map[string]any{"@list": []any{"b"}}}} }},
		{"list-of-list", func() any { return []any{[]any{"a"}} }},
		{"number-list", func() any { return []any{1, 2} }},
		{"nested-node", func() any { return map[string]any{"@id": "http://ex.org/emb", "http://ex.org/p1": "v"} }},
	}
}

func jsonClone(v any) any {
	b, _ := json.Marshal(v)
	var out any
	json.Unmarshal(b, &out)
	return out
}

// JSONMutants returns every single-point structured mutation of the document.
func JSONMutants(src string) []Mutant {
	var root any
	if err := json.Unmarshal([]byte(src), &root); err != nil {
		panic("seed does not parse: " + err.Error())
	}
	var out []Mutant
	type step struct {
		key string
		idx int
	}
	getParent := func(r any, path []step) (any, step) {
		cur := r
		for _, s := range path[:len(path)-1] {
			switch c := cur.(type) {
			case map[string]any:
				cur = c[s.key]
			case []any:
				cur = c[s.idx]
			}
		}
		return cur, path[len(path)-1]
	}
	emit := func(desc string, path []step, mutate func(parent any, last step) any) {
		c := jsonClone(root)
		if len(path) == 0 {
			c = mutate(nil, step{})
		} else {
			par, last := getParent(c, path)
			res := mutate(par, last)
			if res != nil { // parent replaced (slice shrink)
				if len(path) == 1 {
					c = res
				} else {
					gp, gl := getParent(c, path[:len(path)-1])
					switch g := gp.(type) {
					case map[string]any:
						g[gl.key] = res
					case []any:
						g[gl.idx] = res
					}
				}
			}
		}
		out = append(out, Mutant{Text: JSON(c), Desc: desc})
	}
	var walk func(v any, path []step, label string)
	walk = func(v any, path []step, label string) {
		p := append([]step{}, path...)
		if len(p) > 0 {
			for _, rep := range jsonReplacements() {
				rp := rep
				emit("replace "+label+" by "+rp.name, p, func(par any, last step) any {
					switch c := par.(type) {
					case map[string]any:
						c[last.key] = rp.v()
					case []any:
						c[last.idx] = rp.v()
					}
					return nil
				})
			}
		}
		switch c := v.(type) {
		case map[string]any:
			keys := make([]string, 0, len(c))
			for k := range c {
				keys = append(keys, k)
			}
			sort.Strings(keys)
			for _, k := range keys {
				kk := k
				lab := label + "/" + k
				emit("delete key "+lab, append(p, step{key: kk}), func(par any, last step) any {
					delete(par.(map[string]any), last.key)
					return nil
				})
				emit("rename key "+lab, append(p, step{key: kk}), func(par any, last step) any {
					m := par.(map[string]any)
					m[last.key+"X"] = m[last.key]
					delete(m, last.key)
					return nil
				})
				for _, kw := range []string{"@id", "@type", "@value", "@graph", "@list", "@context", "@reverse", "@language", "@set", "@index"} {
					if kw == kk {
						continue
					}
					kw2 := kw
					emit("key "+lab+" becomes "+kw2, append(p, step{key: kk}), func(par any, last step) any {
						m := par.(map[string]any)
						m[kw2] = m[last.key]
						delete(m, last.key)
						return nil
					})
				}
				walk(c[k], append(p, step{key: kk}), lab)
			}
		case []any:
			for i := range c {
				ii := i
				lab := fmt.Sprintf("%s[%d]", label, i)
				emit("delete item "+lab, append(p, step{idx: ii}), func(par any, last step) any {
					s := par.([]any)
					return append(append([]any{}, s[:last.idx]...), s[last.idx+1:]...)
				})
				walk(c[i], append(p, step{idx: ii}), lab)
			}
		}
	}
	walk(root, nil, "")
	for _, s := range []struct{ d, t string }{
		{"top-level {}", "{}"}, {"top-level []", "[]"}, {"empty @graph", `{"@graph":[]}`}, {"@graph object", `{"@graph":{}}`},
		{"context only", `{"@context":{"ex":"http://ex.org/"}}`}, {"top-level scalar", "42"}, {"top-level string", `"x"`}, {"top-level null", "null"},
		{"top-level true", "true"}, {"list of scalars", `[1,"a",null]`}, {"node without type", `{"@id":"http://ex.org/a","http://ex.org/p1":"v"}`},
		{"blank nodes only", `{"@graph":[{"http://ex.org/p1":"v"},{"http://ex.org/p1":{"http://ex.org/p2":"w"}}]}`},
		{"@id number", `{"@id":1}`}, {"@type object", `{"@id":"http://ex.org/a","@type":{}}`}, {"@context number", `{"@context":42,"@id":"http://ex.org/a"}`},
		{"@value with @id", `{"@id":"http://ex.org/a","http://ex.org/p":{"@value":"x","@id":"http://ex.org/b"}}`},
		{"@reverse scalar", `{"@id":"http://ex.org/a","@reverse":"x"}`}, {"@language number", `{"@id":"http://ex.org/a","http://ex.org/p":{"@value":"x","@language":1}}`},
		{"remote context", `{"@context":"http://127.0.0.1:1/ctx.jsonld","@id":"http://ex.org/a"}`},
		{"deep nesting", strings.Repeat(`{"http://ex.org/p":`, 200) + `"v"` + strings.Repeat("}", 200)},
		{"huge number", `{"@id":"http://ex.org/a","@type":"http://ex.org/T","http://ex.org/p1":1e400}`},
		{"duplicate keys", `{"@id":"http://ex.org/a","@id":"http://ex.org/b","@type":"http://ex.org/T"}`},
		{"@graph of scalars", `{"@graph":[1,2]}`}, {"named graph", `{"@id":"http://ex.org/g","@graph":[{"@id":"http://ex.org/a","@type":"http://ex.org/T"}]}`},
	} {
		out = append(out, Mutant{Text: s.t, Desc: "special: " + s.d})
	}
	return out
}

// RawStrings enumerates all strings of length 0..n over the alphabet.
func RawStrings(alphabet []string, n int, f func(s string)) {
	var rec func(cur string, left int)
	rec = func(cur string, left int) {
		f(cur)
		if left == 0 {
			return
		}
		for _, a := range alphabet {
			rec(cur+a, left-1)
		}
	}
	rec("", n)
}

var YAMLAlphabet = []string{":", "-", "#", "[", "]", "{", "}", "&", "*", "!", "|", ">", "'", "\"", "%", "@", "\n", " ", "a", "?", ",", "<"}
var JSONAlphabet = []string{"{", "}", "[", "]", "\"", ":", ",", "\\", "0", "t", "n", " ", "a", "\xff", "-", "e", "."}
