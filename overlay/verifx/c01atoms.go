//go:build verif

package verifx

import (
	"fmt"
	"regexp"
	"strings"
)

// C01 family 3 — atom catalogue: every documented atomic constraint kind, plain
// and under `not`, on a small value domain; oracle written from the tutorial
// (docs/validation_tutorial/validation.md §2–3). Domains avoid the cases the
// tutorial leaves open (absent property for containsAll/containsSome, several
// values for equalsToProperty, non-integral numbers for xsd.integer, duplicate
// values, which JSON-LD sets cannot hold).

type atomDom struct {
	label string
	v     []any // values of ex.v
	w     []any // values of ex.w (property-pair kinds)
}

type atomKind struct {
	name string
	cons *YMap
	dom  []atomDom
	// perValue kinds: the constraint holds iff every value (pair) satisfies ok
	okVal  func(v any) bool
	okPair func(a, b any) bool
	// set kinds: the constraint holds iff okSet(values)
	okSet func(vs []any) bool
}

func num(v any) (float64, bool) {
	switch x := v.(type) {
	case int:
		return float64(x), true
	case float64:
		return x, true
	}
	return 0, false
}

func strOf(v any) string { return litString(v) }

func c01AtomKinds() []atomKind {
	strDom := []atomDom{{"absent", nil, nil}, {"one ok", []any{"abc"}, nil}, {"one bad", []any{"zzzzzzz"}, nil}, {"ok+bad", []any{"abc", "zzzzzzz"}, nil}, {"two ok", []any{"abc", "abd"}, nil}, {"two bad", []any{"zzzzzzz", "yyyyyyy"}, nil}}
	numDom := func(b float64) []atomDom {
		return []atomDom{{"absent", nil, nil}, {"below", []any{int(b) - 1}, nil}, {"at", []any{int(b)}, nil}, {"above", []any{int(b) + 1}, nil}, {"float below", []any{b - 0.5}, nil}, {"float above", []any{b + 0.5}, nil}, {"below+above", []any{int(b) - 1, int(b) + 1}, nil}, {"two above", []any{int(b) + 1, int(b) + 2}, nil}}
	}
	cntDom := []atomDom{{"0 values", nil, nil}, {"1 value", []any{"a"}, nil}, {"2 values", []any{"a", "b"}, nil}, {"3 values", []any{"a", "b", "c"}, nil}}
	setDom := []atomDom{{"{a}", []any{"a"}, nil}, {"{b}", []any{"b"}, nil}, {"{z}", []any{"z"}, nil}, {"{a,b}", []any{"a", "b"}, nil}, {"{a,z}", []any{"a", "z"}, nil}, {"{a,b,z}", []any{"a", "b", "z"}, nil}, {"{y,z}", []any{"y", "z"}, nil}}
	inDom := append([]atomDom{{"absent", nil, nil}, {"{3}", []any{3}, nil}, {"{true}", []any{true}, nil}, {"{a,3}", []any{"a", 3}, nil}}, setDom...)
	pairDom := []atomDom{{"v absent", nil, []any{2}}, {"w absent", []any{1}, nil}, {"1 vs 2", []any{1}, []any{2}}, {"2 vs 1", []any{2}, []any{1}}, {"1 vs 1", []any{1}, []any{1}}, {"[1,3] vs 2", []any{1, 3}, []any{2}}, {"1 vs [2,3]", []any{1}, []any{2, 3}}, {"[1,2] vs [3,4]", []any{1, 2}, []any{3, 4}}}
	single := []atomDom{{"1 vs 2", []any{1}, []any{2}}, {"2 vs 1", []any{2}, []any{1}}, {"1 vs 1", []any{1}, []any{1}}, {"a vs a", []any{"a"}, []any{"a"}}, {"a vs b", []any{"a"}, []any{"b"}}}
	re := regexp.MustCompile(`^ab`)
	inList := map[string]bool{"a": true, "b": true, "3": true, "true": true}
	contains := func(vs []any, x string) bool {
		for _, v := range vs {
			if strOf(v) == x {
				return true
			}
		}
		return false
	}
	cmp := func(f func(a, b float64) bool) func(a, b any) bool {
		return func(a, b any) bool {
			x, ok1 := num(a)
			y, ok2 := num(b)
			return ok1 && ok2 && f(x, y)
		}
	}
	return []atomKind{
		{name: "minCount 2", cons: M("minCount", 2), dom: cntDom, okSet: func(vs []any) bool { return len(vs) >= 2 }},
		{name: "maxCount 1", cons: M("maxCount", 1), dom: cntDom, okSet: func(vs []any) bool { return len(vs) <= 1 }},
		{name: "exactCount 2", cons: M("exactCount", 2), dom: cntDom, okSet: func(vs []any) bool { return len(vs) == 2 }},
		{name: "minCount 0", cons: M("minCount", 0), dom: cntDom, okSet: func(vs []any) bool { return true }},
		{name: "pattern", cons: M("pattern", "^ab"), dom: strDom, okVal: func(v any) bool { return re.MatchString(strOf(v)) }},
		{name: "minLength 3", cons: M("minLength", 3), dom: []atomDom{{"absent", nil, nil}, {"len2", []any{"ab"}, nil}, {"len3", []any{"abc"}, nil}, {"len4", []any{"abcd"}, nil}, {"len2+len4", []any{"ab", "abcd"}, nil}}, okVal: func(v any) bool { return len(strOf(v)) >= 3 }},
		{name: "maxLength 3", cons: M("maxLength", 3), dom: []atomDom{{"absent", nil, nil}, {"len2", []any{"ab"}, nil}, {"len3", []any{"abc"}, nil}, {"len4", []any{"abcd"}, nil}, {"len2+len4", []any{"ab", "abcd"}, nil}}, okVal: func(v any) bool { return len(strOf(v)) <= 3 }},
		{name: "exactLength 3", cons: M("exactLength", 3), dom: []atomDom{{"absent", nil, nil}, {"len2", []any{"ab"}, nil}, {"len3", []any{"abc"}, nil}, {"len4", []any{"abcd"}, nil}, {"len3+len4", []any{"abc", "abcd"}, nil}}, okVal: func(v any) bool { return len(strOf(v)) == 3 }},
		{name: "minInclusive 5", cons: M("minInclusive", 5), dom: numDom(5), okVal: func(v any) bool { x, _ := num(v); return x >= 5 }},
		{name: "minExclusive 5", cons: M("minExclusive", 5), dom: numDom(5), okVal: func(v any) bool { x, _ := num(v); return x > 5 }},
		{name: "maxInclusive 5", cons: M("maxInclusive", 5), dom: numDom(5), okVal: func(v any) bool { x, _ := num(v); return x <= 5 }},
		{name: "maxExclusive 5", cons: M("maxExclusive", 5), dom: numDom(5), okVal: func(v any) bool { x, _ := num(v); return x < 5 }},
		{name: "maxExclusive 5.5", cons: M("maxExclusive", 5.5), dom: numDom(5), okVal: func(v any) bool { x, _ := num(v); return x < 5.5 }},
		{name: "datatype xsd.string", cons: M("datatype", "xsd.string"), dom: []atomDom{{"absent", nil, nil}, {"string", []any{"a"}, nil}, {"int", []any{3}, nil}, {"bool", []any{true}, nil}, {"string+int", []any{"a", 3}, nil}}, okVal: func(v any) bool { _, ok := v.(string); return ok }},
		{name: "datatype xsd.integer", cons: M("datatype", "xsd.integer"), dom: []atomDom{{"absent", nil, nil}, {"string", []any{"a"}, nil}, {"int", []any{3}, nil}, {"bool", []any{true}, nil}, {"int+string", []any{3, "a"}, nil}}, okVal: func(v any) bool { _, ok := v.(int); return ok }},
		{name: "datatype xsd.boolean", cons: M("datatype", "xsd.boolean"), dom: []atomDom{{"absent", nil, nil}, {"string", []any{"a"}, nil}, {"int", []any{3}, nil}, {"bool", []any{false}, nil}}, okVal: func(v any) bool { _, ok := v.(bool); return ok }},
		{name: "in", cons: M("in", []any{"a", "b", 3, true}), dom: inDom, okVal: func(v any) bool { return inList[strOf(v)] }},
		{name: "containsAll", cons: M("containsAll", strs("a", "b")), dom: setDom, okSet: func(vs []any) bool { return contains(vs, "a") && contains(vs, "b") }},
		{name: "containsSome", cons: M("containsSome", strs("a", "b")), dom: setDom, okSet: func(vs []any) bool { return contains(vs, "a") || contains(vs, "b") }},
		{name: "lessThanProperty", cons: M("lessThanProperty", "ex.w"), dom: pairDom, okPair: cmp(func(a, b float64) bool { return a < b })},
		{name: "lessThanOrEqualsToProperty", cons: M("lessThanOrEqualsToProperty", "ex.w"), dom: pairDom, okPair: cmp(func(a, b float64) bool { return a <= b })},
		{name: "equalsToProperty", cons: M("equalsToProperty", "ex.w"), dom: single, okPair: func(a, b any) bool { return strOf(a) == strOf(b) && fmt.Sprintf("%T", a) == fmt.Sprintf("%T", b) }},
		{name: "disjointWithProperty", cons: M("disjointWithProperty", "ex.w"), dom: single, okPair: func(a, b any) bool { return !(strOf(a) == strOf(b) && fmt.Sprintf("%T", a) == fmt.Sprintf("%T", b)) }},
	}
}

// sat: classical truth of the plain atom; someOK: some value (pair) satisfies the per-value predicate
func (k atomKind) sat(d atomDom) (sat bool, someOK bool, perValue bool) {
	switch {
	case k.okSet != nil:
		return k.okSet(d.v), false, false
	case k.okVal != nil:
		all := true
		for _, v := range d.v {
			if k.okVal(v) {
				someOK = true
			} else {
				all = false
			}
		}
		return all, someOK, true
	default:
		all := true
		for _, a := range d.v {
			for _, b := range d.w {
				if k.okPair(a, b) {
					someOK = true
				} else {
					all = false
				}
			}
		}
		return all, someOK, true
	}
}

func c01AtomCases(emit func(c01Case)) {
	for _, k := range c01AtomKinds() {
		emit(c01Case{Fam: "atoms", Graph: k.name})
	}
}

func c01AtomKindByName(name string) atomKind {
	for _, x := range c01AtomKinds() {
		if x.name == name {
			return x
		}
	}
	panic("harness: unknown atom kind " + name)
}

// c01AtomProfile builds the catalogue profile (validations plain / neg / asif) and its graph for one kind.
func c01AtomProfile(k atomKind) (string, *Graph) {
	g := &Graph{}
	for i, d := range k.dom {
		n := g.Add(nid(i), EX+"T")
		if len(d.v) > 0 {
			n.P(EX+"v", d.v...)
		}
		if len(d.w) > 0 {
			n.P(EX+"w", d.w...)
		}
	}
	g.Add(EX+"decoy", EX+"U").P(EX+"v", "zzzzzzz", 99)
	top := M("profile", "c01 atoms", "prefixes", M("ex", EX), "violation", strs("plain", "neg", "asif"),
		"validations", M(
			"plain", M("message", "m", "targetClass", "ex.T", "propertyConstraints", M("ex.v", k.cons)),
			"neg", M("message", "m", "targetClass", "ex.T", "not", M("propertyConstraints", M("ex.v", k.cons))),
			// the constraint as the `if` of a conditional whose `then` never holds: reported iff the constraint holds
			"asif", M("message", "m", "targetClass", "ex.T", "if", M("propertyConstraints", M("ex.v", k.cons)), "then", M("propertyConstraints", M("ex.never", M("minCount", 1)))),
		))
	return EmitYAML(top), g
}

func c01RunAtoms(c *Ctx, cs c01Case) {
	k := c01AtomKindByName(cs.Graph)
	prof, g := c01AtomProfile(k)
	res := Validate(prof, g.FlatJSONLD())
	c.Eval(1)
	if res.Panic != nil || res.Err != nil {
		c.Violate("C01 atom profile rejected: "+k.name+": "+firstLine(res.ErrString()), prof, nil)
		return
	}
	rep, err := ParseReport(res.Report)
	if err != nil {
		c.Violate("C01 atom report malformed", err.Error(), nil)
		return
	}
	plain, neg, asif := rep.FocusSet("plain"), rep.FocusSet("neg"), rep.FocusSet("asif")
	if !setEq(neg, asif) {
		c.Violate("C01 atom under `not` and the same atom as the `if` of a failing conditional disagree: "+k.name, fmt.Sprintf("not: %s\nif:  %s\nprofile:\n%s", setStr(neg), setStr(asif), prof), nil)
	}
	both := 0
	for i, d := range k.dom {
		id := nid(i)
		sat, someOK, perValue := k.sat(d)
		if sat {
			both |= 1
		} else {
			both |= 2
		}
		if plain[id] != !sat {
			c.Violate("C01 atom verdict mismatch: "+k.name+" (plain)", fmt.Sprintf("kind %s domain value %q (v=%v w=%v): reported=%v, the constraint holds=%v\nprofile:\n%s", k.name, d.label, d.v, d.w, plain[id], sat, prof), nil)
		}
		// classical negation: `not K` holds iff K does not hold, so the node is reported iff K holds
		if neg[id] != sat {
			sig := "C01 atom verdict mismatch: " + k.name + " (under not)"
			if perValue && neg[id] == someOK {
				// recorded defect model: a negated per-value constraint is evaluated per value ("some value satisfies it")
				n := "no"
				if len(d.v) > 1 || len(d.w) > 1 {
					n = "several"
				}
				sig = "C01 negated per-value constraint on a property with " + n + " values is not the classical negation"
			}
			c.Violate(sig, fmt.Sprintf("kind %s domain value %q (v=%v w=%v): under `not` reported=%v, classical negation reports=%v\nprofile:\n%s", k.name, d.label, d.v, d.w, neg[id], sat, prof), nil)
		}
	}
	if both == 3 {
		c.Nontrivial("atoms|" + k.name)
	}
	c.Outcome("atoms " + k.name)
	c.Sample(map[string]any{"family": "atoms", "kind": k.name, "domain": strings.Join(func() []string {
		var l []string
		for _, d := range k.dom {
			l = append(l, d.label)
		}
		return l
	}(), "; ")})
}
