//go:build verif

package verifx

import (
	"bytes"
	"encoding/json"
	"fmt"

	"github.com/piprate/json-gold/ld"
)

// Seed (profile, data) pairs shared by C04, C09, C11, C17, C18.

type Seed struct {
	Name    string
	Profile string
	Data    string
}

const seedProfilePlain = `#%Validation Profile 1.0
profile: seed plain
prefixes:
  ex: http://ex.org/
violation:
  - v1
  - v2
validations:
  v1:
    message: p1 is required
    targetClass: ex.T
    propertyConstraints:
      ex.p1:
        minCount: 1
        pattern: ^v
  v2:
    message: p2 in list
    targetClass: ex.T
    propertyConstraints:
      ex.p2:
        in: [a, b, 3]
        maxCount: 2
`

const seedDataPlain = `{"@graph":[
 {"@id":"http://ex.org/n0","@type":["http://ex.org/T"],"http://ex.org/p1":"v","http://ex.org/p2":["a","b"]},
 {"@id":"http://ex.org/n1","@type":["http://ex.org/T"],"http://ex.org/p2":"z"},
 {"@id":"http://ex.org/n2","@type":["http://ex.org/T","http://ex.org/U"],"http://ex.org/p1":["w","v"],"http://ex.org/p2":3},
 {"@id":"http://ex.org/n3","@type":"http://ex.org/U"}
]}`

const seedProfileNested = `profile: seed nested
prefixes:
  ex: http://ex.org/
violation:
  - deep
warning:
  - quant
validations:
  deep:
    message: children need p4
    targetClass: ex.T
    propertyConstraints:
      ex.c / ex.d:
        nested:
          propertyConstraints:
            ex.p4:
              minCount: 1
      ex.c | ex.p^:
        minCount: 1
  quant:
    message: at least one good child
    targetClass: ex.T
    or:
      - propertyConstraints:
          ex.c:
            atLeast:
              count: 1
              validation:
                propertyConstraints:
                  ex.p4:
                    minCount: 1
      - not:
          propertyConstraints:
            ex.p1:
              minCount: 1
`

const seedDataNested = `{"@graph":[
 {"@id":"http://ex.org/n0","@type":["http://ex.org/T"],"http://ex.org/p1":"v","http://ex.org/c":[{"@id":"http://ex.org/c0"},{"@id":"http://ex.org/c1"}]},
 {"@id":"http://ex.org/n1","@type":["http://ex.org/T"],"http://ex.org/p1":"v","http://ex.org/c":{"@id":"http://ex.org/c1"},"http://ex.org/p":{"@id":"http://ex.org/n0"}},
 {"@id":"http://ex.org/c0","@type":["http://ex.org/C"],"http://ex.org/d":{"@id":"http://ex.org/d0"},"http://ex.org/p4":"x"},
 {"@id":"http://ex.org/c1","@type":["http://ex.org/C"],"http://ex.org/d":[{"@id":"http://ex.org/d0"},{"@id":"http://ex.org/d1"}]},
 {"@id":"http://ex.org/d0","@type":["http://ex.org/D"],"http://ex.org/p4":"x"},
 {"@id":"http://ex.org/d1","@type":["http://ex.org/D"]}
]}`

const seedProfileLevels = `profile: seed levels
prefixes:
  ex: http://ex.org/
violation:
  - a
warning:
  - b
info:
  - c
validations:
  a:
    message: "Node {{ ex.name }} lacks p1 ({{ex.missing}})"
    targetClass: ex.T
    propertyConstraints:
      ex.p1:
        minCount: 1
  b:
    message: numbers
    targetClass: ex.T
    propertyConstraints:
      ex.num:
        minInclusive: 2
        maxExclusive: 10.5
        datatype: xsd.integer
      ex.name:
        minLength: 2
        lessThanProperty: ex.other
  c:
    message: sets
    targetClass: ex.T
    if:
      propertyConstraints:
        ex.p1:
          minCount: 1
    then:
      propertyConstraints:
        ex.tags:
          containsAll: [x, y]
          uniqueValues: true
    else:
      propertyConstraints:
        ex.tags:
          containsSome: [z]
`

const seedDataLevels = `{"@graph":[
 {"@id":"http://ex.org/n0","@type":["http://ex.org/T"],"http://ex.org/name":"zero","http://ex.org/other":"zz","http://ex.org/num":5,"http://ex.org/p1":"v","http://ex.org/tags":["x","y"]},
 {"@id":"http://ex.org/n1","@type":["http://ex.org/T"],"http://ex.org/name":"o","http://ex.org/other":"a","http://ex.org/num":1,"http://ex.org/tags":["q"]},
 {"@id":"http://ex.org/n2","@type":["http://ex.org/T"],"http://ex.org/num":[10.5,3],"http://ex.org/p1":"v","http://ex.org/tags":"x"}
]}`

const seedProfileRego = `profile: seed rego
prefixes:
  ex: http://ex.org/
rego_extensions: |
  helper_ok(x) {
    count(x) > 0
  }
violation:
  - top
  - inpath
validations:
  top:
    message: top-level rego
    targetClass: ex.T
    rego: |
      v = object.get($node, "http://ex.org/p1", [])
      $result = helper_ok(v)
  inpath:
    message: rego under a path
    targetClass: ex.T
    propertyConstraints:
      ex.p2:
        rego:
          message: custom
          code: |
            $result = (count($node) < 2)
`

// an AMF-like compact document with a context, embedded nodes and source maps
const seedDataAMF = `{
 "@context": {"@base":"amf://id", "ex":"http://ex.org/", "doc":"http://a.ml/vocabularies/document#", "sm":"http://a.ml/vocabularies/document-source-maps#"},
 "@graph": [
  {"@id":"#1","@type":["ex:T","doc:DomainElement"],"ex:p1":"v","ex:p2":["a","b","c"],
   "ex:c":[{"@id":"#2","@type":["ex:C"],"ex:p4":"x","sm:sources":[{"@id":"#2/source-map","@type":["sm:SourceMap"],"sm:lexical":[{"@id":"#2/source-map/lexical/element_0","sm:element":"amf://id#2","sm:value":"[(3,4)-(5,6)]"}]}]}],
   "sm:sources":[{"@id":"#1/source-map","@type":["sm:SourceMap"],"sm:lexical":[{"@id":"#1/source-map/lexical/element_1","sm:element":"ex:p1","sm:value":"[(2,2)-(2,9)]"},{"@id":"#1/source-map/lexical/element_0","sm:element":"amf://id#1","sm:value":"[(1,0)-(9,1)]"}]}]},
  {"@id":"#3","@type":"ex:T","ex:c":{"@id":"#4","@type":"ex:C"}},
  {"@id":"/BaseUnitSourceInformation","@type":"doc:BaseUnitSourceInformation","doc:rootLocation":"file:///api.raml",
   "doc:additionalLocations":[{"@id":"/BaseUnitSourceInformation/location_0","@type":"doc:LocationInformation","doc:location":"file:///lib.raml","doc:elements":[{"@id":"#2"},{"@id":"#4"}]}]}
 ]
}`

func Seeds() []Seed {
	g, lexData, _ := c14Build(c14Case{Mode: "full", Ranges: c14DefaultRanges(c14M5), Files: c14DefaultFiles, NodeMask: 63, PropMask: 21})
	_ = g
	return []Seed{
		{"plain", seedProfilePlain, seedDataPlain},
		{"nested", seedProfileNested, seedDataNested},
		{"lexical", c14Profile(), lexData},
		{"levels", seedProfileLevels, seedDataLevels},
		{"rego", seedProfileRego, seedDataPlain},
		{"amf", seedProfileNested, seedDataAMF},
	}
}

// ---- JSON-LD oracle: what the dependency itself says about a document --------

type LDInfo struct {
	Readable  bool  // a complete JSON value can be read from the front
	FlattenOK bool  // json-gold flattening succeeds
	Nodes     int   // number of nodes after flattening
	Err       error // flatten error
}

// LDClassify decides, with encoding/json and json-gold called directly (the
// dependency is the definition of "JSON-LD processing rejects it"), what class
// a data text belongs to.
func LDClassify(data string) (info LDInfo) {
	dec := json.NewDecoder(bytes.NewBufferString(data))
	dec.UseNumber()
	var v any
	if err := dec.Decode(&v); err != nil {
		return LDInfo{}
	}
	info.Readable = true
	defer func() {
		if r := recover(); r != nil {
			info.FlattenOK = false
			info.Err = fmt.Errorf("json-gold panicked: %v", r)
		}
	}()
	proc := ld.NewJsonLdProcessor()
	out, err := proc.Flatten(v, map[string]any{}, ld.NewJsonLdOptions(""))
	if err != nil {
		info.Err = err
		return info
	}
	info.FlattenOK = true
	if m, ok := out.(map[string]any); ok {
		if g, ok := m["@graph"].([]any); ok {
			info.Nodes = len(g)
		}
	}
	return info
}
