//go:build verif

package verifx

import (
	"bytes"
	"crypto/sha1"
	"fmt"
	"io"
	"os"
	"os/exec"
	"path/filepath"
	"regexp"
	"sort"
	"strings"
	"sync/atomic"
	"syscall"
	"time"
	"unsafe"
)

// C18 — the CLI emits exactly the library's output, to stdout or to the file.
// Explicit-state search: a state is the state of the OUTPUT path (kind, mode,
// content); a transition is one invocation of the freshly built acv binary.

type c18Case struct {
	Init []string `json:"init"` // initial states to start the search from
}

type c18State struct {
	Kind    string // absent | file | dir | noparent
	Mode    os.FileMode
	Content []byte
}

var dateRe = regexp.MustCompile(`"dateCreated": "([^"]*)"`)

func normDate(b []byte) []byte {
	return dateRe.ReplaceAll(b, []byte(`"dateCreated": "<DATE>"`))
}

func (s c18State) key() string {
	h := sha1.Sum(normDate(s.Content))
	return fmt.Sprintf("%s/%o/%x", s.Kind, s.Mode&0o777, h[:6])
}

func (s c18State) describe() string {
	if s.Kind != "file" {
		return s.Kind
	}
	return fmt.Sprintf("file(mode %o, %d bytes, sha %s)", s.Mode&0o777, len(s.Content), s.key()[strings.LastIndex(s.key(), "/")+1:])
}

type c18Input struct {
	name    string
	profile string // "" = missing file
	data    string
	pOK     bool
	dOK     bool
}

func c18Inputs() []c18Input {
	conf := &Graph{}
	conf.Add(nid(0), EX+"T").P(EX+"p1", "v").P(EX+"p2", "a")
	one := &Graph{}
	one.Add(nid(0), EX+"T").P(EX+"p1", "v").P(EX+"p2", "a")
	one.Add(nid(1), EX+"T").P(EX+"p2", "a")
	many := TruthTableGraph(4, false)
	// a second long document whose report has the SAME LENGTH as the first and differs only late: the node reported
	// last gets another id of the same length
	manyText := many.FlatJSONLD()
	many2Text := manyText
	if r := Validate(seedProfilePlain, manyText); r.Err == nil && r.Panic == nil {
		if rep, err := ParseReport(r.Report); err == nil && len(rep.Results) > 0 {
			last := rep.Results[len(rep.Results)-1].Focus
			many2Text = strings.ReplaceAll(manyText, "\""+last+"\"", "\""+last[:len(last)-1]+"x\"")
		}
	}
	return []c18Input{
		{"conforming", seedProfilePlain, conf.FlatJSONLD(), true, true},
		{"one-violation", seedProfilePlain, one.FlatJSONLD(), true, true},
		{"many-violations", seedProfilePlain, manyText, true, true},
		{"many-violations-same-length", seedProfilePlain, many2Text, true, true},
		{"profile-error", "profile: x\nprefixes: {ex: http://ex.org/}\nviolation: [v]\nvalidations:\n  v:\n    targetClass: nope.T\n    propertyConstraints:\n      ex.p: {minCount: 1}\n", conf.FlatJSONLD(), false, true},
		{"profile-not-yaml", "profile: [unclosed\n", conf.FlatJSONLD(), false, true},
		{"data-error", seedProfilePlain, "not json", true, false},
		{"data-jsonld-error", seedProfilePlain, `{"@id":1}`, true, false},
		{"empty-data", seedProfilePlain, `{}`, true, true},
		// characters that text encoders treat specially (HTML-sensitive <, >, &, U+2028/U+2029, non-ASCII, supplementary plane,
		// backslash, quotes, a control character): the CLI must print what the library returns, not a re-encoding of it
		{"encoder-specials", strings.Replace(strings.Replace(seedProfilePlain, "message: p1 is required", "message: \"<p1> & 'q' \\\\ \\u00e9\\u6f22\\U0001F600 \\u2028\\u2029 </script> is required\"", 1), "profile: seed plain", "profile: \"a<b>&c \\u00e9\"", 1),
			strings.ReplaceAll(strings.ReplaceAll(one.FlatJSONLD(), "http://ex.org/n", "http://ex.org/q?a=1&b=2#n"), "\"a\"", "\"<a> & b \\u2028 \\u00e9\\ud83d\\ude00 \\\\ \\u0001 \\\"q\\\" </x>\""), true, true},
		// one physical line of more than 64 KiB (and a profile with CRLF line ends): the tool reads its inputs as text
		{"long-line", strings.ReplaceAll(seedProfilePlain, "\n", "\r\n"), func() string { d := one.FlatJSONLD(); return d[:1] + strings.Repeat(" ", 70000) + d[1:] }(), true, true},
		{"percent", strings.Replace(strings.Replace(seedProfilePlain, "message: p1 is required", "message: \"100% of %d nodes need p1 %s\"", 1), "profile: seed plain", "profile: 50%v plain", 1), strings.ReplaceAll(one.FlatJSONLD(), "http://ex.org/n", "file:///my%20api.raml#n"), true, true},
	}
}

func init() {
	Register(Meta{
		ID: "C18", Level: "model_checking",
		Rule:        "state = (kind, mode, content) of the OUTPUT path; initial states: absent, empty file, short junk, long junk (longer than any report), read-only file, directory, missing parent directory; transitions = one run of the built acv: `validate P D OUT` and `validate P D` for 12 (P,D) inputs (conforming/short report, one violation, many violations/long report, two profile errors, two data errors, empty graph, `%` in names/messages/ids, a data line of 70 KB with a CRLF profile, HTML-sensitive/non-ASCII/control characters in names, messages, ids and values), missing input files, `generate P`, `normalize D`, `compile P`, wrong argument counts, unknown command; and, as environment answers, PROFILE or DATA delivered through a named pipe in 2-3 bursts cut at 6 offsets (the writer waits for the pipe to drain between bursts, so the tool meets a short read). Breadth-first to a fixpoint of the canonical state set (content hashed with the dateCreated value masked). Oracle per transition: the library called in-process on the same texts (report modulo the dateCreated value, which must be RFC3339 within the invocation's wall-clock window; generated code after a counter reset; normalised input); failures: non-zero exit and empty stdout.",
		Assumptions: []string{"the sandbox runs as root, so a read-only output file is writable (that state is explored but behaves like a plain file)"},
	}, func(tier string, emit func(c18Case)) {
		init := []string{"absent", "empty", "short", "long", "readonly", "dir", "noparent"}
		if tier == "thorough" {
			init = append(init, "huge", "exact-size-junk", "newline-only", "binary")
		}
		emit(c18Case{Init: init})
	}, c18Run)
}

func c18Materialise(dir string, s c18State) string {
	out := filepath.Join(dir, "out.json")
	switch s.Kind {
	case "file":
		os.WriteFile(out, s.Content, 0o644)
		os.Chmod(out, s.Mode&0o777)
	case "dir":
		os.Mkdir(out, 0o755)
	case "noparent":
		out = filepath.Join(dir, "missing", "out.json")
	}
	return out
}

func c18Observe(out string, wasNoParent bool) c18State {
	fi, err := os.Stat(out)
	if err != nil {
		if wasNoParent {
			if _, e2 := os.Stat(filepath.Dir(out)); e2 != nil {
				return c18State{Kind: "noparent"}
			}
		}
		return c18State{Kind: "absent"}
	}
	if fi.IsDir() {
		return c18State{Kind: "dir"}
	}
	b, _ := os.ReadFile(out)
	return c18State{Kind: "file", Mode: fi.Mode(), Content: b}
}

type c18Run1 struct {
	stdout string
	exit   int
	t0, t1 time.Time
}

func c18Exec(dir string, args ...string) c18Run1 {
	cmd := exec.Command(os.Getenv("VERIF_ACV"), args...)
	cmd.Dir = dir
	var out, errb bytes.Buffer
	cmd.Stdout, cmd.Stderr = &out, &errb
	r := c18Run1{t0: time.Now()}
	err := cmd.Run()
	r.t1 = time.Now()
	r.stdout = out.String()
	if err != nil {
		r.exit = -1
		if ee, ok := err.(*exec.ExitError); ok {
			r.exit = ee.ExitCode()
		}
	}
	return r
}

// c18ExecFifo runs acv with args[idx] replaced by a named pipe through which `content` is delivered in bursts cut
// at the given offsets. After each burst the writer waits until the pipe has been drained (FIONREAD == 0), so the
// reader has necessarily seen a read return fewer bytes than the whole text — the "short read" environment answer —
// without any timing assumption.
func c18ExecFifo(dir string, args []string, idx int, content string, cuts []int) c18Run1 {
	c18FifoN++
	fifo := filepath.Join(dir, fmt.Sprintf("fifo%d", c18FifoN))
	if err := syscall.Mkfifo(fifo, 0o600); err != nil {
		panic("harness: mkfifo: " + err.Error())
	}
	defer os.Remove(fifo)
	a := append([]string{}, args...)
	a[idx] = fifo
	cmd := exec.Command(os.Getenv("VERIF_ACV"), a...)
	cmd.Dir = dir
	var out, errb bytes.Buffer
	cmd.Stdout, cmd.Stderr = &out, &errb
	r := c18Run1{t0: time.Now()}
	if err := cmd.Start(); err != nil {
		panic("harness: " + err.Error())
	}
	var exited int32
	done := make(chan struct{})
	go func() {
		defer close(done)
		w, err := os.OpenFile(fifo, os.O_WRONLY, 0) // blocks until the reader opens the pipe
		if err != nil {
			return
		}
		defer w.Close()
		fd := w.Fd()
		prev := 0
		for _, cut := range append(append([]int{}, cuts...), len(content)) {
			if cut <= prev || cut > len(content) {
				continue
			}
			if _, err := w.Write([]byte(content[prev:cut])); err != nil {
				return
			}
			prev = cut
			for atomic.LoadInt32(&exited) == 0 {
				var pending int32
				if _, _, e := syscall.Syscall(syscall.SYS_IOCTL, fd, 0x541B /* FIONREAD */, uintptr(unsafe.Pointer(&pending))); e != 0 || pending == 0 {
					break
				}
				time.Sleep(200 * time.Microsecond)
			}
		}
	}()
	err := cmd.Wait()
	atomic.StoreInt32(&exited, 1)
	r.t1 = time.Now()
	// a writer still waiting for a reader (the tool never opened the pipe) is released by opening the read end
	if rd, e := os.OpenFile(fifo, os.O_RDONLY|syscall.O_NONBLOCK, 0); e == nil {
		go io.Copy(io.Discard, rd)
		<-done
		rd.Close()
	} else {
		<-done
	}
	r.stdout = out.String()
	if err != nil {
		r.exit = -1
		if ee, ok := err.(*exec.ExitError); ok {
			r.exit = ee.ExitCode()
		}
	}
	return r
}

var c18FifoN int

// checkDate verifies the dateCreated value of a CLI report and returns the text with the value masked.
func c18CheckDate(text string, t0, t1 time.Time) (string, string) {
	m := dateRe.FindStringSubmatch(text)
	if m == nil {
		return text, "report has no dateCreated"
	}
	ts, err := time.Parse(time.RFC3339, m[1])
	if err != nil {
		return string(normDate([]byte(text))), "dateCreated is not RFC3339: " + m[1]
	}
	if ts.Before(t0.Add(-2*time.Second)) || ts.After(t1.Add(2*time.Second)) {
		return string(normDate([]byte(text))), fmt.Sprintf("dateCreated %s outside the invocation window [%s, %s]", m[1], t0.Format(time.RFC3339), t1.Format(time.RFC3339))
	}
	return string(normDate([]byte(text))), ""
}

func c18Run(c *Ctx, cs c18Case) {
	if os.Getenv("VERIF_ACV") == "" {
		panic("harness: VERIF_ACV not set")
	}
	inputs := c18Inputs()
	// reference outputs from the library, in-process
	type ref struct {
		report string
		ok     bool
	}
	refs := make([]ref, len(inputs))
	longest := 0
	for i, in := range inputs {
		r := Validate(in.profile, in.data)
		if r.Panic != nil {
			panic("harness: library panics on C18 input " + in.name)
		}
		refs[i] = ref{report: string(normDate([]byte(r.Report))), ok: r.Err == nil}
		if len(r.Report) > longest {
			longest = len(r.Report)
		}
		if (r.Err == nil) != (in.pOK && in.dOK) {
			panic(fmt.Sprintf("harness: C18 input %s: library ok=%v, expected %v (%v)", in.name, r.Err == nil, in.pOK && in.dOK, r.Err))
		}
	}
	initial := map[string]c18State{
		"absent":          {Kind: "absent"},
		"empty":           {Kind: "file", Mode: 0o644},
		"short":           {Kind: "file", Mode: 0o644, Content: []byte("short junk\n")},
		"long":            {Kind: "file", Mode: 0o644, Content: []byte(strings.Repeat("0123456789abcdef", longest/16+64))},
		"readonly":        {Kind: "file", Mode: 0o444, Content: []byte(strings.Repeat("read-only junk ", 4000))},
		"dir":             {Kind: "dir"},
		"huge":            {Kind: "file", Mode: 0o644, Content: []byte(strings.Repeat("x", 3<<20))},
		"exact-size-junk": {Kind: "file", Mode: 0o644, Content: []byte(strings.Repeat("j", len(refs[2].report)))},
		"newline-only":    {Kind: "file", Mode: 0o600, Content: []byte("\n")},
		"binary":          {Kind: "file", Mode: 0o644, Content: []byte{0, 1, 2, 0xff, 0xfe, '{', '}', 0}},
		"noparent":        {Kind: "noparent"},
	}
	seen := map[string]bool{}
	var frontier []c18State
	depthOf := map[string]int{}
	for _, n := range cs.Init {
		s := initial[n]
		if !seen[s.key()] {
			seen[s.key()] = true
			frontier = append(frontier, s)
			depthOf[s.key()] = 0
		}
	}
	base, err := os.MkdirTemp(os.Getenv("VERIF_WORK"), "c18-")
	if err != nil {
		panic("harness: " + err.Error())
	}
	defer os.RemoveAll(base)
	// input files
	files := map[string]string{}
	for i, in := range inputs {
		p := filepath.Join(base, fmt.Sprintf("p%d.yaml", i))
		d := filepath.Join(base, fmt.Sprintf("d%d.jsonld", i))
		os.WriteFile(p, []byte(in.profile), 0o644)
		os.WriteFile(d, []byte(in.data), 0o644)
		files[fmt.Sprintf("p%d", i)], files[fmt.Sprintf("d%d", i)] = p, d
	}
	missing := filepath.Join(base, "does-not-exist")
	transitions, maxDepth := int64(0), 0
	n := 0
	bad := func(sig, detail string) {
		c.Violate("C18 "+sig, detail, nil)
	}
	for len(frontier) > 0 {
		st := frontier[0]
		frontier = frontier[1:]
		d := depthOf[st.key()]
		if d > maxDepth {
			maxDepth = d
		}
		// --- transitions that write OUT. A state that holds an earlier report is materialised twice: with its
		// original dateCreated and re-stamped with the current second (a report written moments ago is a legitimate
		// prior state, and the CLI offers no clock seam to produce it otherwise).
		variants := []c18State{st}
		if st.Kind == "file" && dateRe.Match(st.Content) {
			now := []byte(`"dateCreated": "` + time.Now().Format(time.RFC3339) + `"`)
			variants = append(variants, c18State{Kind: st.Kind, Mode: st.Mode, Content: dateRe.ReplaceAll(st.Content, now)})
		}
		for vi, stv := range variants {
			for i, in := range inputs {
				st := stv
				if vi == 1 {
					// refresh the stamp right before each invocation
					now := []byte(`"dateCreated": "` + time.Now().Format(time.RFC3339) + `"`)
					st = c18State{Kind: stv.Kind, Mode: stv.Mode, Content: dateRe.ReplaceAll(stv.Content, now)}
				}
				n++
				dir := filepath.Join(base, fmt.Sprintf("w%d", n))
				os.Mkdir(dir, 0o755)
				out := c18Materialise(dir, st)
				r := c18Exec(dir, "validate", files[fmt.Sprintf("p%d", i)], files[fmt.Sprintf("d%d", i)], out)
				transitions++
				c.Eval(1)
				after := c18Observe(out, st.Kind == "noparent")
				where := fmt.Sprintf("validate %s OUT, prior state %s (depth %d)", in.name, st.describe(), d)
				if refs[i].ok && (st.Kind == "absent" || st.Kind == "file") {
					if r.exit != 0 {
						bad("validate to a writable output path fails", fmt.Sprintf("%s: exit %d", where, r.exit))
					} else {
						got, dateProblem := c18CheckDate(string(after.Content), r.t0, r.t1)
						if got != refs[i].report {
							sig := "output file differs from the library's report"
							if strings.HasPrefix(got, refs[i].report) {
								sig = "output file holds the report followed by bytes of its previous content"
							}
							bad(sig, fmt.Sprintf("%s\n%s", where, firstDiff(refs[i].report, got)))
						} else if dateProblem != "" {
							bad("dateCreated", where+": "+dateProblem)
						}
						if r.stdout != "" {
							bad("validate with an output path prints to stdout", where+": "+tailStr(r.stdout, 200))
						}
					}
				} else if !refs[i].ok {
					if r.exit == 0 {
						bad("failing validation exits 0", where)
					}
					if c18HasReport(r.stdout) {
						bad("failing validation prints to stdout", where+": "+tailStr(r.stdout, 200))
					}
				} else { // dir / noparent: the write cannot succeed
					if r.exit == 0 {
						bad("validate exits 0 although the output path cannot be written", where)
					}
				}
				c.Outcome(fmt.Sprintf("validate-out %s from %s exit0=%v", in.name, st.Kind, r.exit == 0))
				if !seen[after.key()] {
					seen[after.key()] = true
					depthOf[after.key()] = d + 1
					frontier = append(frontier, after)
				}
				os.RemoveAll(dir)
			}
		}
		// --- transitions that do not touch OUT are explored once per state as well (they must leave it alone)
		if d == 0 {
			for i, in := range inputs {
				r := c18Exec(base, "validate", files[fmt.Sprintf("p%d", i)], files[fmt.Sprintf("d%d", i)])
				transitions++
				c.Eval(1)
				where := "validate " + in.name + " (stdout)"
				if refs[i].ok {
					got, dateProblem := c18CheckDate(r.stdout, r.t0, r.t1)
					if r.exit != 0 || (got != refs[i].report+"\n" && got != refs[i].report) {
						bad("stdout differs from the library's report", fmt.Sprintf("%s exit=%d\n%s", where, r.exit, firstDiff(refs[i].report+"\n", got)))
					} else if dateProblem != "" {
						bad("dateCreated", where+": "+dateProblem)
					}
				} else if r.exit == 0 || c18HasReport(r.stdout) {
					bad("failing validation exits 0 or prints to stdout", fmt.Sprintf("%s exit=%d stdout=%q", where, r.exit, tailStr(r.stdout, 200)))
				}
				// generate / compile
				if st.Kind == "absent" {
					g := c18Exec(base, "generate", files[fmt.Sprintf("p%d", i)])
					transitions++
					GenReset()
					code, gerr, gp := GenerateRego(in.profile)
					if gerr == nil && gp == nil {
						if g.exit != 0 || (g.stdout != code+"\n" && g.stdout != code) {
							bad("generate stdout differs from the generated policy", fmt.Sprintf("generate %s exit=%d\n%s", in.name, g.exit, firstDiff(code+"\n", g.stdout)))
						}
					} else if g.exit == 0 || c18HasReport(g.stdout) {
						bad("failing generate exits 0 or prints", fmt.Sprintf("generate %s exit=%d", in.name, g.exit))
					}
					nz := c18Exec(base, "normalize", files[fmt.Sprintf("d%d", i)])
					transitions++
					norm, nerr, np := ProcessInput(in.data)
					if nerr == nil && np == nil {
						if nz.exit != 0 || (nz.stdout != Encode(norm)+"\n" && nz.stdout != Encode(norm)) {
							bad("normalize stdout differs from the normalised input", fmt.Sprintf("normalize %s exit=%d\n%s", in.name, nz.exit, firstDiff(Encode(norm)+"\n", nz.stdout)))
						}
					} else if nz.exit == 0 || c18HasReport(nz.stdout) {
						bad("failing normalize exits 0 or prints", fmt.Sprintf("normalize %s exit=%d", in.name, nz.exit))
					}
					cp := c18Exec(base, "compile", files[fmt.Sprintf("p%d", i)])
					transitions++
					if (cp.exit == 0) != in.pOK {
						bad("compile exit status disagrees with the library", fmt.Sprintf("compile %s exit=%d", in.name, cp.exit))
					}
					c.Eval(3)
				}
			}
			if st.Kind == "absent" {
				// --- inputs delivered through a pipe in several bursts (short reads): same outputs as from a file
				for _, i := range []int{1, 2, 9, 10} {
					in := inputs[i]
					pf, df := files[fmt.Sprintf("p%d", i)], files[fmt.Sprintf("d%d", i)]
					cutsOf := func(text string) [][]int {
						n := len(text)
						return [][]int{{1}, {n / 2}, {n - 1}, {n / 3, 2 * n / 3}, {4096}, {65536}}
					}
					norm, _, _ := ProcessInput(in.data)
					GenReset()
					code, _, _ := GenerateRego(in.profile)
					for _, which := range []string{"profile", "data"} {
						text, idx := in.profile, 1
						if which == "data" {
							text, idx = in.data, 2
						}
						for _, cuts := range cutsOf(text) {
							if cuts[0] <= 0 || cuts[0] >= len(text) {
								continue
							}
							r := c18ExecFifo(base, []string{"validate", pf, df}, idx, text, cuts)
							transitions++
							c.Eval(1)
							got, _ := c18CheckDate(r.stdout, r.t0, r.t1)
							if r.exit != 0 || (got != refs[i].report+"\n" && got != refs[i].report) {
								bad("validate output differs when the "+which+" arrives through a pipe in several bursts", fmt.Sprintf("validate %s, %s through a FIFO cut at %v: exit=%d\n%s", in.name, which, cuts, r.exit, firstDiff(refs[i].report+"\n", got)))
							}
							if which == "profile" {
								g := c18ExecFifo(base, []string{"generate", pf}, 1, text, cuts)
								transitions++
								if g.exit != 0 || (g.stdout != code+"\n" && g.stdout != code) {
									bad("generate output differs when the profile arrives through a pipe in several bursts", fmt.Sprintf("generate %s through a FIFO cut at %v: exit=%d\n%s", in.name, cuts, g.exit, firstDiff(code+"\n", g.stdout)))
								}
							} else {
								nz := c18ExecFifo(base, []string{"normalize", df}, 1, text, cuts)
								transitions++
								if nz.exit != 0 || (nz.stdout != Encode(norm)+"\n" && nz.stdout != Encode(norm)) {
									bad("normalize output differs when the data arrives through a pipe in several bursts", fmt.Sprintf("normalize %s through a FIFO cut at %v: exit=%d\n%s", in.name, cuts, nz.exit, firstDiff(Encode(norm)+"\n", nz.stdout)))
								}
							}
							c.Outcome("fifo " + which)
						}
					}
				}
				for _, args := range [][]string{
					{"validate"}, {"validate", files["p0"]}, {"validate", files["p0"], files["d0"], "a", "b"}, {"generate"}, {"generate", files["p0"], "x"},
					{"normalize"}, {"normalize", files["d0"], "x"}, {"compile"}, {"frobnicate"}, {"frobnicate", files["p0"], files["d0"]},
					{"validate", missing, files["d0"]}, {"validate", files["p0"], missing}, {"generate", missing}, {"normalize", missing}, {"compile", missing},
				} {
					r := c18Exec(base, args...)
					transitions++
					c.Eval(1)
					if r.exit == 0 || c18HasReport(r.stdout) {
						bad("invalid invocation exits 0 or prints to stdout", fmt.Sprintf("acv %s: exit=%d stdout=%q", strings.Join(args, " "), r.exit, tailStr(r.stdout, 200)))
					}
					c.Outcome("invalid invocation exit!=0")
				}
			}
		}
	}
	keys := make([]string, 0, len(seen))
	for k := range seen {
		keys = append(keys, k)
	}
	sort.Strings(keys)
	c.Count("states", int64(len(seen)))
	c.Count("transitions", transitions)
	c.Count("traces_validated_against_impl", transitions)
	c.Max("depth", int64(maxDepth))
	c.Nontrivial("c18")
	c.Nontrivial("c18b")
	c.Sample(map[string]any{"states": keys, "transition": "acv validate p2.yaml d2.jsonld OUT from state file(long junk)"})
}

// c18HasReport: does the text contain a validation report / generated policy / normalised input? (failures must
// print "no report on stdout"; an error message there is not a report)
func c18HasReport(out string) bool {
	return strings.Contains(out, "\"conforms\"") || strings.Contains(out, "shacl:ValidationReport") || strings.Contains(out, "package profile_") || strings.Contains(out, "\"@ids\"")
}
