//go:build verif

package main

import (
	"os"

	"github.com/aml-org/amf-custom-validator/verifx"
)

func main() { os.Exit(verifx.Main(os.Args[1:])) }
