//go:build verif

// Package vsync replaces "sync" in instrumented repository files: Mutex,
// RWMutex and Once are scheduling points with happens-before edges under the
// controlled scheduler and plain sync primitives otherwise; everything else
// is the real thing.
package vsync

import (
	"sync"

	"github.com/aml-org/amf-custom-validator/verifrt"
)

type Mutex = verifrt.Mutex

type RWMutex struct{ m verifrt.Mutex }

func (r *RWMutex) Lock()    { r.m.Lock() }
func (r *RWMutex) Unlock()  { r.m.Unlock() }
func (r *RWMutex) RLock()   { r.m.Lock() }
func (r *RWMutex) RUnlock() { r.m.Unlock() }

type Once struct {
	m    verifrt.Mutex
	done bool
}

func (o *Once) Do(f func()) {
	o.m.Lock()
	defer o.m.Unlock()
	if !o.done {
		o.done = true
		f()
	}
}

type (
	Pool      = sync.Pool
	WaitGroup = sync.WaitGroup
	Map       = sync.Map
	Cond      = sync.Cond
	Locker    = sync.Locker
)

func NewCond(l Locker) *Cond { return sync.NewCond(l) }
