//go:build verif

// Package vsync replaces "sync" in instrumented repository files: Mutex,
// RWMutex, Once and WaitGroup are scheduling points with happens-before edges under the
// controlled scheduler and plain sync primitives otherwise; everything else
// is the real thing.
package vsync

import (
	"sync"

	"github.com/aml-org/amf-custom-validator/verifrt"
)

type Mutex = verifrt.Mutex

type RWMutex struct{ m verifrt.Mutex }

func (r *RWMutex) Lock()    { r.m.Lock() }
func (r *RWMutex) Unlock()  { r.m.Unlock() }
func (r *RWMutex) RLock()   { r.m.Lock() }
func (r *RWMutex) RUnlock() { r.m.Unlock() }

type Once struct {
	m    verifrt.Mutex
	done bool
}

func (o *Once) Do(f func()) {
	o.m.Lock()
	defer o.m.Unlock()
	if !o.done {
		o.done = true
		f()
	}
}

type (
	Pool      = sync.Pool
	WaitGroup = verifrt.WaitGroup
	Cond      = sync.Cond
	Locker    = sync.Locker
)

func NewCond(l Locker) *Cond { return sync.NewCond(l) }

// Map is sync.Map whose operations are scheduling points (check-then-act races on it become explorable).
type Map struct{ m sync.Map }

func (m *Map) Load(key any) (any, bool) { verifrt.Yield("sync.Map.Load", false); return m.m.Load(key) }
func (m *Map) Store(key, value any)     { verifrt.Yield("sync.Map.Store", true); m.m.Store(key, value) }
func (m *Map) LoadOrStore(key, value any) (any, bool) {
	verifrt.Yield("sync.Map.LoadOrStore", true)
	return m.m.LoadOrStore(key, value)
}
func (m *Map) LoadAndDelete(key any) (any, bool) {
	verifrt.Yield("sync.Map.LoadAndDelete", true)
	return m.m.LoadAndDelete(key)
}
func (m *Map) Delete(key any) { verifrt.Yield("sync.Map.Delete", true); m.m.Delete(key) }
func (m *Map) Range(f func(key, value any) bool) {
	verifrt.Yield("sync.Map.Range", false)
	m.m.Range(f)
}
