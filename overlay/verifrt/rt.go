//go:build verif

// Package verifrt is the runtime behind the instrumented build of the
// repository: a cooperative scheduler (exactly one harness thread runs at a
// time; control changes hands only at instrumented accesses to package-level
// variables and at shim sync operations) and a seam that dictates the
// iteration order of every `range` over a map. With no active scheduler every
// hook is a no-op (accesses) or deterministic (sorted map order).
package verifrt

import (
	"fmt"
	"sort"
	"sync"
	"time"
)

// Point is one recorded choice point of an execution.
type Point struct {
	Kind    string `json:"kind"`    // "sched" | "map"
	Site    string `json:"site"`    // variable or map-range site
	Arity   int    `json:"arity"`   // number of options
	Choice  int    `json:"choice"`  // option taken
	Thread  int    `json:"thread"`  // thread that was running when the point was reached
	Preempt bool   `json:"preempt"` // for sched points: the running thread was still enabled (choice != 0 is a preemption)
	Write   bool   `json:"write"`
}

type Race struct {
	Var  string `json:"var"`
	A, B string `json:"a_b"`
}

type thread struct {
	id      int
	wake    chan struct{}
	done    bool
	blocked *Mutex     // shim mutex this thread waits for
	waitWG  *WaitGroup // shim wait group this thread waits for
	clock   []int
	started bool
}

// Sched is one controlled execution.
type Sched struct {
	mu         sync.Mutex
	prefix     []int
	pos        int
	Points     []Point
	threads    []*thread
	current    int
	MapChoices bool                          // register map-iteration order as choice points
	SiteOK     func(site string, n int) bool // which map-range sites are choice points (nil = all)
	Diverged   string
	Deadlock   bool
	Races      map[string]Race
	vars       map[string]*varState
	finished   chan struct{}
	mainWake   chan struct{}
	Accesses   int
	mutexes    map[*Mutex]*mstate
	wgs        map[*WaitGroup]*wgstate
	spawned    sync.WaitGroup // goroutines started by the code under test through Go
	Spawns     int
}

// wgstate is the per-execution state of a shim WaitGroup.
type wgstate struct {
	n     int
	clock []int
}

func (s *Sched) wg(w *WaitGroup) *wgstate {
	if s.wgs == nil {
		s.wgs = map[*WaitGroup]*wgstate{}
	}
	st := s.wgs[w]
	if st == nil {
		st = &wgstate{}
		s.wgs[w] = st
	}
	return st
}

// mstate is the per-execution state of a shim mutex (kept in the scheduler so
// nothing leaks from one execution into the next).
type mstate struct {
	held  bool
	owner int
	clock []int
}

func (s *Sched) ms(m *Mutex) *mstate {
	if s.mutexes == nil {
		s.mutexes = map[*Mutex]*mstate{}
	}
	st := s.mutexes[m]
	if st == nil {
		st = &mstate{}
		s.mutexes[m] = st
	}
	return st
}

type varState struct {
	lastWriteThread int
	lastWriteClock  []int
	lastWriteSite   string
	reads           map[int][]int // thread -> clock at last read
	readSite        map[int]string
}

// Active is the scheduler of the execution in progress (nil = free running).
var Active *Sched

func NewSched(prefix []int, mapChoices bool) *Sched {
	return &Sched{prefix: prefix, MapChoices: mapChoices, Races: map[string]Race{}, vars: map[string]*varState{}}
}

// choose consumes the next choice (prefix, then default 0).
func (s *Sched) choose(arity int) int {
	c := 0
	if s.pos < len(s.prefix) {
		c = s.prefix[s.pos]
		if c >= arity {
			if s.Diverged == "" {
				s.Diverged = fmt.Sprintf("choice %d at position %d out of range (arity %d)", c, s.pos, arity)
			}
			c = 0
		}
	}
	s.pos++
	return c
}

// Run executes the thread bodies under the scheduler and returns when all
// have finished (or a deadlock was detected).
func (s *Sched) Run(bodies ...func()) {
	n := len(bodies)
	s.threads = make([]*thread, n)
	for i := range bodies {
		s.threads[i] = &thread{id: i, wake: make(chan struct{}, 1), clock: make([]int, n)}
		s.threads[i].clock[i] = 1
	}
	s.finished = make(chan struct{})
	Active = s
	var wg sync.WaitGroup
	for i, b := range bodies {
		wg.Add(1)
		go func(t *thread, body func()) {
			defer wg.Done()
			<-t.wake
			body()
			s.threadDone(t)
		}(s.threads[i], b)
	}
	// start thread 0
	s.current = 0
	s.threads[0].wake <- struct{}{}
	wg.Wait()
	s.spawned.Wait()
	Active = nil
}

func (s *Sched) enabled() []int {
	var out []int
	cur := s.threads[s.current]
	if !cur.done && cur.blocked == nil && cur.waitWG == nil {
		out = append(out, cur.id)
	}
	for _, t := range s.threads {
		if t.id != s.current && !t.done && (t.blocked == nil || !s.ms(t.blocked).held) && (t.waitWG == nil || s.wg(t.waitWG).n <= 0) {
			out = append(out, t.id)
		}
	}
	return out
}

// yield is called by the running thread at a scheduling point.
func (s *Sched) yield(site string, write bool) {
	s.mu.Lock()
	me := s.threads[s.current]
	en := s.enabled()
	if len(en) <= 1 {
		// nothing to choose; not a choice point
		s.mu.Unlock()
		return
	}
	c := s.choose(len(en))
	s.Points = append(s.Points, Point{Kind: "sched", Site: site, Arity: len(en), Choice: c, Thread: me.id, Preempt: en[0] == me.id, Write: write})
	next := s.threads[en[c]]
	if next == me {
		s.mu.Unlock()
		return
	}
	s.current = next.id
	s.mu.Unlock()
	next.wake <- struct{}{}
	<-me.wake
}

func (s *Sched) threadDone(t *thread) {
	s.mu.Lock()
	t.done = true
	en := s.enabled()
	if len(en) == 0 {
		// everything finished, or deadlock
		for _, o := range s.threads {
			if !o.done {
				s.Deadlock = true
				// release blocked threads so the process can make progress and report
				o.blocked = nil
				o.waitWG = nil
				s.current = o.id
				s.mu.Unlock()
				o.wake <- struct{}{}
				return
			}
		}
		s.mu.Unlock()
		return
	}
	c := 0
	if len(en) > 1 {
		c = s.choose(len(en))
		s.Points = append(s.Points, Point{Kind: "sched", Site: "thread-end", Arity: len(en), Choice: c, Thread: t.id, Preempt: false})
	}
	next := s.threads[en[c]]
	s.current = next.id
	s.mu.Unlock()
	next.wake <- struct{}{}
}

// vector clocks grow when the code under test starts goroutines: a missing component is 0

func join(a, b []int) []int {
	for len(a) < len(b) {
		a = append(a, 0)
	}
	for i := range b {
		if b[i] > a[i] {
			a[i] = b[i]
		}
	}
	return a
}

func leq(a, b []int) bool { // a happens-before-or-equal b
	for i := range a {
		bi := 0
		if i < len(b) {
			bi = b[i]
		}
		if a[i] > bi {
			return false
		}
	}
	return true
}

func (t *thread) tick() {
	for len(t.clock) <= t.id {
		t.clock = append(t.clock, 0)
	}
	t.clock[t.id]++
}

// Access is called by instrumented code before a read or write of a
// package-level variable. mutable=false marks variables that no repository
// code writes: they are recorded for the race verdict but are not scheduling
// points.
func Access(name, site string, write, mutable bool) {
	s := Active
	if s == nil {
		return
	}
	s.mu.Lock()
	s.Accesses++
	t := s.threads[s.current]
	vs := s.vars[name]
	if vs == nil {
		vs = &varState{lastWriteThread: -1, reads: map[int][]int{}, readSite: map[int]string{}}
		s.vars[name] = vs
	}
	// race verdict with vector clocks
	if vs.lastWriteThread >= 0 && vs.lastWriteThread != t.id && !leq(vs.lastWriteClock, t.clock) {
		s.Races[name] = Race{Var: name, A: vs.lastWriteSite + " (write)", B: site}
	}
	if write {
		for rt, rc := range vs.reads {
			if rt != t.id && !leq(rc, t.clock) {
				s.Races[name] = Race{Var: name, A: vs.readSite[rt] + " (read)", B: site + " (write)"}
			}
		}
		vs.lastWriteThread = t.id
		vs.lastWriteClock = append([]int{}, t.clock...)
		vs.lastWriteSite = site
		vs.reads = map[int][]int{}
	} else {
		vs.reads[t.id] = append([]int{}, t.clock...)
		vs.readSite[t.id] = site
	}
	t.tick()
	s.mu.Unlock()
	if mutable {
		s.yield(name+" @"+site, write)
	}
}

// Order returns the keys of m in the order the explorer dictates (default:
// sorted by their printed form).
func Order[K comparable, V any](site string, m map[K]V) []K {
	keys := make([]K, 0, len(m))
	for k := range m {
		keys = append(keys, k)
	}
	sort.Slice(keys, func(i, j int) bool { return fmt.Sprint(keys[i]) < fmt.Sprint(keys[j]) })
	s := Active
	if s == nil || !s.MapChoices || len(keys) < 2 {
		return keys
	}
	if s.SiteOK != nil && !s.SiteOK(site, len(keys)) {
		return keys
	}
	s.mu.Lock()
	defer s.mu.Unlock()
	if len(keys) > 4 {
		// large maps: one choice among the 2n rotations/reversed rotations instead of n! orders
		n := len(keys)
		c := s.choose(2 * n)
		s.Points = append(s.Points, Point{Kind: "map", Site: site, Arity: 2 * n, Choice: c, Thread: s.current})
		out := make([]K, 0, n)
		if c < n {
			out = append(append(out, keys[c:]...), keys[:c]...)
		} else {
			r := c - n
			for i := 0; i < n; i++ {
				out = append(out, keys[(r+n-i)%n])
			}
		}
		return out
	}
	out := make([]K, 0, len(keys))
	rest := keys
	for len(rest) > 1 {
		c := s.choose(len(rest))
		s.Points = append(s.Points, Point{Kind: "map", Site: site, Arity: len(rest), Choice: c, Thread: s.current})
		out = append(out, rest[c])
		rest = append(append([]K{}, rest[:c]...), rest[c+1:]...)
	}
	return append(out, rest[0])
}

// ---- shim sync primitives (scheduling points with happens-before edges) -----

type Mutex struct {
	real sync.Mutex
}

func (m *Mutex) Lock() {
	s := Active
	if s == nil {
		m.real.Lock()
		return
	}
	s.yield("mutex.Lock", true)
	for {
		s.mu.Lock()
		t := s.threads[s.current]
		st := s.ms(m)
		if !st.held {
			st.held, st.owner = true, t.id
			if st.clock != nil {
				t.clock = join(t.clock, st.clock)
			}
			t.tick()
			s.mu.Unlock()
			return
		}
		// block: hand over to another enabled thread
		t.blocked = m
		en := s.enabled()
		if len(en) == 0 {
			s.Deadlock = true
			t.blocked = nil
			s.mu.Unlock()
			return
		}
		c := 0
		if len(en) > 1 {
			c = s.choose(len(en))
			s.Points = append(s.Points, Point{Kind: "sched", Site: "mutex-blocked", Arity: len(en), Choice: c, Thread: t.id})
		}
		next := s.threads[en[c]]
		s.current = next.id
		s.mu.Unlock()
		next.wake <- struct{}{}
		<-t.wake
		s.mu.Lock()
		t.blocked = nil
		s.mu.Unlock()
	}
}

func (m *Mutex) Unlock() {
	s := Active
	if s == nil {
		m.real.Unlock()
		return
	}
	s.mu.Lock()
	t := s.threads[s.current]
	st := s.ms(m)
	st.held = false
	st.clock = append([]int{}, t.clock...)
	t.tick()
	s.mu.Unlock()
	s.yield("mutex.Unlock", true)
}

// Yield is a bare scheduling point (used by the shim sync.Map / atomic operations).
func Yield(site string, write bool) {
	if s := Active; s != nil {
		s.yield(site, write)
	}
}

// ---- wall clock seam ---------------------------------------------------------

// FakeNow switches the repository's time.Now() calls (rewritten to Now by the instrumenter) to a synthetic clock that
// jumps by more than an hour on every reading, so that any wall-clock value that leaks into an output makes two
// otherwise identical executions differ.
var FakeNow bool

var nowReadings int64
var nowMu sync.Mutex

// NowReadings reports how many times the repository read the wall clock since the process started.
func NowReadings() int64 {
	nowMu.Lock()
	defer nowMu.Unlock()
	return nowReadings
}

func Now() time.Time {
	nowMu.Lock()
	nowReadings++
	n := nowReadings
	nowMu.Unlock()
	if !FakeNow {
		return time.Now()
	}
	return time.Date(2031, 1, 1, 0, 0, 0, 0, time.UTC).Add(time.Duration(n) * 3661 * time.Second)
}

// ---- goroutines started by the code under test ----------------------------------

// Go replaces a `go` statement of the repository in the instrumented build. Under a controlled execution the new
// goroutine becomes one more scheduler thread (ordered after the spawn, runnable from the spawn on; the spawn is a
// scheduling point, so the child may run before the parent continues); free running, it is a plain goroutine.
func Go(f func()) {
	s := Active
	if s == nil {
		go f()
		return
	}
	s.mu.Lock()
	parent := s.threads[s.current]
	t := &thread{id: len(s.threads), wake: make(chan struct{}, 1)}
	t.clock = append([]int{}, parent.clock...)
	t.tick()
	parent.tick()
	s.threads = append(s.threads, t)
	s.Spawns++
	s.spawned.Add(1)
	s.mu.Unlock()
	go func() {
		defer s.spawned.Done()
		<-t.wake
		f()
		s.threadDone(t)
	}()
	s.yield("go", true)
}

// WaitGroup is sync.WaitGroup whose Wait blocks the scheduler thread (not the OS thread) and whose Done/Wait pairs
// are happens-before edges.
type WaitGroup struct {
	real sync.WaitGroup
}

func (w *WaitGroup) Add(n int) {
	s := Active
	if s == nil {
		w.real.Add(n)
		return
	}
	s.mu.Lock()
	t := s.threads[s.current]
	st := s.wg(w)
	st.n += n
	if n < 0 {
		st.clock = join(st.clock, t.clock)
	}
	t.tick()
	s.mu.Unlock()
	if n < 0 {
		s.yield("WaitGroup.Done", true)
	}
}

func (w *WaitGroup) Done() { w.Add(-1) }

func (w *WaitGroup) Wait() {
	s := Active
	if s == nil {
		w.real.Wait()
		return
	}
	s.yield("WaitGroup.Wait", false)
	for {
		s.mu.Lock()
		t := s.threads[s.current]
		st := s.wg(w)
		if st.n <= 0 {
			t.clock = join(t.clock, st.clock)
			t.tick()
			s.mu.Unlock()
			return
		}
		t.waitWG = w
		en := s.enabled()
		if len(en) == 0 {
			s.Deadlock = true
			t.waitWG = nil
			s.mu.Unlock()
			return
		}
		c := 0
		if len(en) > 1 {
			c = s.choose(len(en))
			s.Points = append(s.Points, Point{Kind: "sched", Site: "waitgroup-blocked", Arity: len(en), Choice: c, Thread: t.id})
		}
		next := s.threads[en[c]]
		s.current = next.id
		s.mu.Unlock()
		next.wake <- struct{}{}
		<-t.wake
		s.mu.Lock()
		t.waitWG = nil
		s.mu.Unlock()
	}
}
