//go:build verif

// Package vatomic replaces "sync/atomic" in instrumented repository files: every operation is a scheduling point.
package vatomic

import (
	"sync/atomic"

	"github.com/aml-org/amf-custom-validator/verifrt"
)

func AddInt32(addr *int32, delta int32) int32 {
	verifrt.Yield("atomic.AddInt32", true)
	return atomic.AddInt32(addr, delta)
}
func AddInt64(addr *int64, delta int64) int64 {
	verifrt.Yield("atomic.AddInt64", true)
	return atomic.AddInt64(addr, delta)
}
func AddUint32(addr *uint32, delta uint32) uint32 {
	verifrt.Yield("atomic.AddUint32", true)
	return atomic.AddUint32(addr, delta)
}
func AddUint64(addr *uint64, delta uint64) uint64 {
	verifrt.Yield("atomic.AddUint64", true)
	return atomic.AddUint64(addr, delta)
}
func LoadInt32(addr *int32) int32 {
	verifrt.Yield("atomic.LoadInt32", false)
	return atomic.LoadInt32(addr)
}
func LoadInt64(addr *int64) int64 {
	verifrt.Yield("atomic.LoadInt64", false)
	return atomic.LoadInt64(addr)
}
func LoadUint32(addr *uint32) uint32 {
	verifrt.Yield("atomic.LoadUint32", false)
	return atomic.LoadUint32(addr)
}
func LoadUint64(addr *uint64) uint64 {
	verifrt.Yield("atomic.LoadUint64", false)
	return atomic.LoadUint64(addr)
}
func StoreInt32(addr *int32, v int32) {
	verifrt.Yield("atomic.StoreInt32", true)
	atomic.StoreInt32(addr, v)
}
func StoreInt64(addr *int64, v int64) {
	verifrt.Yield("atomic.StoreInt64", true)
	atomic.StoreInt64(addr, v)
}
func StoreUint32(addr *uint32, v uint32) {
	verifrt.Yield("atomic.StoreUint32", true)
	atomic.StoreUint32(addr, v)
}
func StoreUint64(addr *uint64, v uint64) {
	verifrt.Yield("atomic.StoreUint64", true)
	atomic.StoreUint64(addr, v)
}
func CompareAndSwapInt32(addr *int32, old, new int32) bool {
	verifrt.Yield("atomic.CompareAndSwapInt32", true)
	return atomic.CompareAndSwapInt32(addr, old, new)
}
func CompareAndSwapInt64(addr *int64, old, new int64) bool {
	verifrt.Yield("atomic.CompareAndSwapInt64", true)
	return atomic.CompareAndSwapInt64(addr, old, new)
}
func SwapInt32(addr *int32, new int32) int32 {
	verifrt.Yield("atomic.SwapInt32", true)
	return atomic.SwapInt32(addr, new)
}
func SwapInt64(addr *int64, new int64) int64 {
	verifrt.Yield("atomic.SwapInt64", true)
	return atomic.SwapInt64(addr, new)
}

type Int32 struct{ v atomic.Int32 }

func (x *Int32) Load() int32        { verifrt.Yield("atomic.Int32.Load", false); return x.v.Load() }
func (x *Int32) Store(v int32)      { verifrt.Yield("atomic.Int32.Store", true); x.v.Store(v) }
func (x *Int32) Add(d int32) int32  { verifrt.Yield("atomic.Int32.Add", true); return x.v.Add(d) }
func (x *Int32) Swap(n int32) int32 { verifrt.Yield("atomic.Int32.Swap", true); return x.v.Swap(n) }
func (x *Int32) CompareAndSwap(o, n int32) bool {
	verifrt.Yield("atomic.Int32.CompareAndSwap", true)
	return x.v.CompareAndSwap(o, n)
}

type Int64 struct{ v atomic.Int64 }

func (x *Int64) Load() int64        { verifrt.Yield("atomic.Int64.Load", false); return x.v.Load() }
func (x *Int64) Store(v int64)      { verifrt.Yield("atomic.Int64.Store", true); x.v.Store(v) }
func (x *Int64) Add(d int64) int64  { verifrt.Yield("atomic.Int64.Add", true); return x.v.Add(d) }
func (x *Int64) Swap(n int64) int64 { verifrt.Yield("atomic.Int64.Swap", true); return x.v.Swap(n) }
func (x *Int64) CompareAndSwap(o, n int64) bool {
	verifrt.Yield("atomic.Int64.CompareAndSwap", true)
	return x.v.CompareAndSwap(o, n)
}

type Bool struct{ v atomic.Bool }

func (x *Bool) Load() bool       { verifrt.Yield("atomic.Bool.Load", false); return x.v.Load() }
func (x *Bool) Store(v bool)     { verifrt.Yield("atomic.Bool.Store", true); x.v.Store(v) }
func (x *Bool) Swap(n bool) bool { verifrt.Yield("atomic.Bool.Swap", true); return x.v.Swap(n) }
func (x *Bool) CompareAndSwap(o, n bool) bool {
	verifrt.Yield("atomic.Bool.CompareAndSwap", true)
	return x.v.CompareAndSwap(o, n)
}

type Value = atomic.Value

type Pointer[T any] struct{ v atomic.Pointer[T] }

func (x *Pointer[T]) Load() *T     { verifrt.Yield("atomic.Pointer.Load", false); return x.v.Load() }
func (x *Pointer[T]) Store(v *T)   { verifrt.Yield("atomic.Pointer.Store", true); x.v.Store(v) }
func (x *Pointer[T]) Swap(n *T) *T { verifrt.Yield("atomic.Pointer.Swap", true); return x.v.Swap(n) }
func (x *Pointer[T]) CompareAndSwap(o, n *T) bool {
	verifrt.Yield("atomic.Pointer.CompareAndSwap", true)
	return x.v.CompareAndSwap(o, n)
}
