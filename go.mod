module verif

go 1.23
