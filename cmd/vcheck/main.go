// vcheck is the driver: it rebuilds the worker from /repo's current working tree
// (through a generated `go build -overlay`), shards the enumeration over worker
// processes, merges what they covered, re-executes violations, matches known
// findings, writes the evidence file and sets the exit status.
package main

import (
	"bytes"
	"context"
	"crypto/sha1"
	"encoding/json"
	"fmt"
	"os"
	"os/exec"
	"path/filepath"
	"regexp"
	"sort"
	"strconv"
	"strings"
	"sync"
	"time"
)

const modPath = "github.com/aml-org/amf-custom-validator"

// The registered commands run in /verif against /repo. VERIF_DIR / VERIF_REPO exist only so that a background
// run (`vp run --with-repo`) can work on its own snapshots without being disturbed by edits.
var (
	verifDir = envOr("VERIF_DIR", "/verif")
	repoDir  = envOr("VERIF_REPO", "/repo")
)

func envOr(k, d string) string {
	if v := os.Getenv(k); v != "" {
		return v
	}
	return d
}

type Violation struct {
	Sig     string          `json:"sig"`
	Detail  string          `json:"detail"`
	Case    json.RawMessage `json:"case"`
	Shard   int             `json:"shard"`
	From    int64           `json:"from"`
	NShards int             `json:"nshards"`
	Idx     int64           `json:"idx"`
}

type Meta struct {
	ID              string   `json:"id"`
	Level           string   `json:"level"`
	Rule            string   `json:"rule"`
	Assumptions     []string `json:"assumptions"`
	HangIsViolation bool     `json:"hang_is_violation"`
}

type WorkerOut struct {
	Meta       Meta             `json:"meta"`
	Tier       string           `json:"tier"`
	Shard      int              `json:"shard"`
	Cases      int64            `json:"cases"`
	Evals      int64            `json:"evals"`
	Nontrivial int64            `json:"nontrivial"`
	Outcomes   map[string]int64 `json:"outcomes"`
	Counters   map[string]int64 `json:"counters"`
	Violations []Violation      `json:"violations"`
	VioCounts  map[string]int   `json:"vio_counts"`
	Samples    []any            `json:"samples"`
	Notes      []string         `json:"notes"`
	CapHit     bool             `json:"cap_hit"`
	Done       bool             `json:"done"`
	HangAt     int64            `json:"hang_at"`
	HangFrame  string           `json:"hang_frame"`
	HangStacks string           `json:"hang_stacks"`
	LastIdx    int64            `json:"last_idx"`
}

type Finding struct {
	Property string `json:"property"`
	Sig      string `json:"sig,omitempty"`
	SigRe    string `json:"sig_re,omitempty"`
	What     string `json:"what"`
}

type KnownFile struct {
	Findings []Finding `json:"findings"`
	Fixed    []string  `json:"fixed"`
}

func goEnv(cache string) []string {
	env := os.Environ()
	env = append(env, "GOFLAGS=-mod=mod", "GOPROXY=off", "GOSUMDB=off", "GOTOOLCHAIN=local", "GOCACHE="+cache, "CGO_ENABLED=0")
	return env
}

func die(code int, f string, a ...any) {
	fmt.Fprintf(os.Stderr, f+"\n", a...)
	os.Exit(code)
}

// overlayFor writes the overlay JSON that maps /verif/overlay/** into /repo.
func overlayFor(work string, extra map[string]string) string {
	repl := map[string]string{}
	root := filepath.Join(verifDir, "overlay")
	filepath.Walk(root, func(p string, info os.FileInfo, err error) error {
		if err != nil || info.IsDir() || !strings.HasSuffix(p, ".go") {
			return nil
		}
		rel, _ := filepath.Rel(root, p)
		var dst string
		switch {
		case strings.HasPrefix(rel, "vworker/"):
			dst = filepath.Join(repoDir, "cmd", rel)
		default:
			dst = filepath.Join(repoDir, rel)
		}
		repl[dst] = p
		return nil
	})
	for k, v := range extra {
		repl[k] = v
	}
	b, _ := json.MarshalIndent(map[string]any{"Replace": repl}, "", " ")
	f := filepath.Join(work, "overlay.json")
	os.WriteFile(f, b, 0o644)
	return f
}

func run(dir string, env []string, name string, args ...string) (string, error) {
	cmd := exec.Command(name, args...)
	cmd.Dir = dir
	cmd.Env = env
	var buf bytes.Buffer
	cmd.Stdout = &buf
	cmd.Stderr = &buf
	err := cmd.Run()
	return buf.String(), err
}

func main() {
	if len(os.Args) < 2 {
		die(2, "usage: vcheck <ID>|setup [--tier quick|thorough] [--replay file] [--workers N]")
	}
	id := os.Args[1]
	tier := os.Getenv("VERIF_TIER")
	replay := ""
	workers := 16
	explicitTier := false
	for i := 2; i < len(os.Args); i++ {
		switch os.Args[i] {
		case "--tier":
			i++
			tier = os.Args[i]
			explicitTier = true
		case "--replay":
			i++
			replay = os.Args[i]
		case "--workers":
			i++
			workers, _ = strconv.Atoi(os.Args[i])
		}
	}
	_ = explicitTier
	if tier != "quick" && tier != "thorough" {
		tier = "quick"
	}
	seed := int64(0)
	if s := os.Getenv("VERIF_SEED"); s != "" {
		seed, _ = strconv.ParseInt(s, 10, 64)
	}
	cache := filepath.Join(verifDir, ".cache", "go-build")
	os.MkdirAll(cache, 0o755)
	work := filepath.Join(verifDir, ".work", fmt.Sprintf("%s-%d", id, os.Getpid()))
	os.MkdirAll(work, 0o755)
	defer os.RemoveAll(work)
	code := realMain(id, tier, replay, workers, seed, cache, work)
	os.RemoveAll(work)
	os.Exit(code)
}

// needsInstr lists the checks that run on an instrumented build of the repository.
var needsInstr = map[string]bool{"C06": true, "C10": true}

func buildWorker(id, cache, work string) (string, error) {
	extra := map[string]string{}
	if needsInstr[id] {
		instr := filepath.Join(verifDir, "bin", "vinstr")
		out, err := run(repoDir, goEnv(cache), instr, "-out", filepath.Join(work, "instr"), "-mode", id)
		if err != nil {
			return "", fmt.Errorf("instrumenter failed: %v\n%s", err, out)
		}
		var m map[string]string
		b, err := os.ReadFile(filepath.Join(work, "instr", "replace.json"))
		if err != nil {
			return "", err
		}
		json.Unmarshal(b, &m)
		for k, v := range m {
			extra[k] = v
		}
	}
	ov := overlayFor(work, extra)
	bin := filepath.Join(work, "vworker-"+id)
	env := goEnv(cache)
	// build inside /repo with the module's own go.mod; readonly so /repo is never rewritten
	for i, e := range env {
		if strings.HasPrefix(e, "GOFLAGS=") {
			env[i] = "GOFLAGS=-mod=readonly"
		}
	}
	out, err := run(repoDir, env, "go", "build", "-tags", "verif", "-overlay", ov, "-o", bin, "./cmd/vworker")
	if err != nil {
		return "", fmt.Errorf("worker build failed: %v\n%s", err, out)
	}
	return bin, nil
}

func buildACV(cache, work string) (string, error) {
	bin := filepath.Join(work, "acv")
	env := goEnv(cache)
	for i, e := range env {
		if strings.HasPrefix(e, "GOFLAGS=") {
			env[i] = "GOFLAGS=-mod=readonly"
		}
	}
	out, err := run(repoDir, env, "go", "build", "-o", bin, "./cmd")
	if err != nil {
		return "", fmt.Errorf("acv build failed: %v\n%s", err, out)
	}
	return bin, nil
}

var needsACV = map[string]bool{"C18": true, "C04": true, "C12": true, "C05": true, "C03": true}

func realMain(id, tier, replay string, workers int, seed int64, cache, work string) int {
	t0 := time.Now()
	if id == "setup" {
		return setup(cache, work)
	}
	bin, err := buildWorker(id, cache, work)
	if err != nil {
		fmt.Fprintln(os.Stderr, err)
		return 2
	}
	wenv := os.Environ()
	wenv = append(wenv, "VERIF_WORK="+work)
	if needsACV[id] {
		acv, err := buildACV(cache, work)
		if err != nil {
			fmt.Fprintln(os.Stderr, err)
			return 2
		}
		wenv = append(wenv, "VERIF_ACV="+acv)
	}
	dl := 420
	if tier == "thorough" {
		dl = 3000
	}
	if s := os.Getenv("VERIF_DEADLINE_S"); s != "" {
		dl, _ = strconv.Atoi(s)
	}
	wenv = append(wenv, fmt.Sprintf("VERIF_SOFT_DEADLINE_S=%d", dl))

	if replay != "" {
		out, err := runWorker(bin, wenv, "replay", id, tier, replay)
		fmt.Print(out)
		if err == nil {
			fmt.Println("replay: case passes")
			return 0
		}
		if ee, ok := err.(*exec.ExitError); ok && ee.ExitCode() == 1 {
			fmt.Printf("VIOLATION property=%s replay=%s\n", id, replay)
			return 1
		}
		if ee, ok := err.(*exec.ExitError); ok && ee.ExitCode() == 3 && strings.Contains(out, `"hang_frame":"`) && !strings.Contains(out, `"hang_frame":""`) {
			// the replayed call blocked inside the library
			fmt.Printf("VIOLATION property=%s replay=%s\n", id, replay)
			return 1
		}
		return 2
	}

	// ---- sharded run
	outs := make([]WorkerOut, 0, workers)
	var mu sync.Mutex
	var wg sync.WaitGroup
	broken := false
	hangs := []string{}
	var crashes []Violation
	for s := 0; s < workers; s++ {
		wg.Add(1)
		go func(s int) {
			defer wg.Done()
			from := int64(0)
			myCrashes := 0
			myHangs := 0
			myExpiries := 0
			for attempt := 0; attempt < 50; attempt++ {
				of := filepath.Join(work, fmt.Sprintf("out-%d-%d.json", s, attempt))
				// hard limit per worker process: the soft deadline is cooperative, and a harness thread stuck inside the
				// controlled scheduler (code under test blocking on a channel the scheduler does not model) would never
				// reach it; such a worker is killed and the run reported as not exhaustive
				ctx, cancel := context.WithTimeout(context.Background(), time.Duration(dl+900)*time.Second)
				cmd := exec.CommandContext(ctx, bin, "run", id, tier, strconv.Itoa(s), strconv.Itoa(workers), strconv.FormatInt(from, 10), of)
				cmd.Env = wenv
				var eb bytes.Buffer
				cmd.Stderr = &eb
				cmd.Stdout = &eb
				err := cmd.Run()
				timedOut := ctx.Err() == context.DeadlineExceeded
				cancel()
				if timedOut {
					mu.Lock()
					hangs = append(hangs, fmt.Sprintf("shard %d: worker process killed at the hard limit of %d s (no verdict for the rest of the shard)", s, dl+900))
					if b, rerr := os.ReadFile(of); rerr == nil {
						var wo WorkerOut
						if json.Unmarshal(b, &wo) == nil {
							outs = append(outs, wo)
						}
					}
					mu.Unlock()
					return
				}
				var wo WorkerOut
				b, rerr := os.ReadFile(of)
				if rerr == nil {
					json.Unmarshal(b, &wo)
				}
				code := 0
				if err != nil {
					code = -1
					if ee, ok := err.(*exec.ExitError); ok {
						code = ee.ExitCode()
					}
				}
				mu.Lock()
				if rerr == nil {
					outs = append(outs, wo)
				}
				if code == 3 && rerr == nil && wo.HangAt >= 0 {
					hangs = append(hangs, fmt.Sprintf("shard %d case %d", s, wo.HangAt))
					myExpiries++
					if myExpiries >= 6 {
						hangs = append(hangs, fmt.Sprintf("shard %d stopped after 6 watchdog expiries (last at case %d)", s, wo.HangAt))
						mu.Unlock()
						return
					}
					if wo.Meta.HangIsViolation && wo.HangFrame != "" {
						// the call never returned: a goroutine parked for over a minute inside the library and nothing running
						var pr struct {
							Case json.RawMessage `json:"case"`
						}
						if pb, err := os.ReadFile(of + ".progress"); err == nil {
							json.Unmarshal(pb, &pr)
						}
						sig := fmt.Sprintf("%s call does not return: blocked in %s [hang]", id, wo.HangFrame)
						crashes = append(crashes, Violation{Sig: sig, Detail: fmt.Sprintf("the case exceeded the %d s watchdog with no goroutine running and a goroutine parked for over a minute in %s\n%s", 90, wo.HangFrame, tail(wo.HangStacks, 3000)), Case: pr.Case, Shard: s, NShards: workers, Idx: wo.HangAt, From: from})
						myHangs++
						if myHangs >= 2 {
							hangs = append(hangs, fmt.Sprintf("shard %d stopped after 2 blocked calls (last at case %d)", s, wo.HangAt))
							mu.Unlock()
							return
						}
					}
					mu.Unlock()
					from = wo.HangAt + 1
					continue
				}
				if code != 0 && !strings.Contains(eb.String(), "HARNESS PANIC") && !strings.Contains(eb.String(), "harness:") &&
					(strings.Contains(eb.String(), "\npanic: ") || strings.HasPrefix(eb.String(), "panic: ") || strings.Contains(eb.String(), "fatal error: ")) {
					// the process died inside the library: a panic on a goroutine the library started (recover() in the
					// caller cannot see it) or a fatal runtime error. That is a violation at the case in progress.
					var pr struct {
						Idx  int64           `json:"idx"`
						Case json.RawMessage `json:"case"`
					}
					if pb, err := os.ReadFile(of + ".progress"); err == nil && json.Unmarshal(pb, &pr) == nil {
						frame := "?"
						if m := regexp.MustCompile(regexp.QuoteMeta(repoDir) + `/((?:internal|pkg|cmd)/[^\s:]+\.go):\d+`).FindStringSubmatch(eb.String()); m != nil {
							frame = m[1]
						}
						first := eb.String()
						if i := strings.Index(first, "panic: "); i >= 0 {
							first = first[i:]
						} else if i := strings.Index(first, "fatal error: "); i >= 0 {
							first = first[i:]
						}
						if j := strings.Index(first, "\n"); j > 0 {
							first = first[:j]
						}
						sig := fmt.Sprintf("%s process crash inside the library at %s [crash]", id, frame)
						crashes = append(crashes, Violation{Sig: sig, Detail: "the worker process died while running this case: " + first + "\n" + tail(eb.String(), 2500), Case: pr.Case, Shard: s, NShards: workers, Idx: pr.Idx, From: from})
						myCrashes++
						if myCrashes >= 3 {
							hangs = append(hangs, fmt.Sprintf("shard %d stopped after 3 process crashes (last at case %d)", s, pr.Idx))
							mu.Unlock()
							return
						}
						mu.Unlock()
						from = pr.Idx + 1
						continue
					}
				}
				if code != 0 {
					broken = true
					fmt.Fprintf(os.Stderr, "worker %d exit %d:\n%s\n", s, code, tail(eb.String(), 6000))
				}
				mu.Unlock()
				return
			}
		}(s)
	}
	wg.Wait()
	if broken || len(outs) == 0 {
		fmt.Fprintln(os.Stderr, "BROKEN: worker failure (harness error), no verdict")
		return 2
	}

	// ---- merge
	meta := outs[0].Meta
	var cases, evals, nontriv int64
	outcomes := map[string]int64{}
	counters := map[string]int64{}
	vioCounts := map[string]int{}
	var vios []Violation
	var samples []any
	var notes []string
	capHit := false
	sort.Slice(outs, func(i, j int) bool { return outs[i].Shard < outs[j].Shard })
	for _, o := range outs {
		cases += o.Cases
		evals += o.Evals
		nontriv += o.Nontrivial
		for k, v := range o.Outcomes {
			outcomes[k] += v
		}
		for k, v := range o.Counters {
			if strings.HasPrefix(k, "max:") {
				if counters[k] < v {
					counters[k] = v
				}
			} else {
				counters[k] += v
			}
		}
		for k, v := range o.VioCounts {
			vioCounts[k] += v
		}
		vios = append(vios, o.Violations...)
		if len(samples) < 6 && len(o.Samples) > 0 {
			samples = append(samples, o.Samples[0])
		}
		for _, n := range o.Notes {
			if len(notes) < 30 {
				notes = append(notes, n)
			}
		}
		capHit = capHit || o.CapHit
	}
	for _, cv := range crashes {
		vios = append(vios, cv)
		vioCounts[cv.Sig]++
	}
	counters["distinct_outcomes"] = int64(len(outcomes))
	for _, h := range hangs {
		notes = append(notes, "watchdog expiry (case skipped, run not exhaustive): "+h)
		capHit = true
	}

	if id == "C06" {
		// uninstrumented repetition pass (Go's own random map order) as a cross-check that the seam is complete
		pbin, err := buildWorker("C06P", cache, work)
		if err != nil {
			fmt.Fprintln(os.Stderr, err)
			return 2
		}
		of := filepath.Join(work, "out-plain.json")
		if out, err := runWorker(pbin, wenv, "run", "C06P", tier, "0", "1", "0", of); err != nil {
			fmt.Fprintln(os.Stderr, "BROKEN: uninstrumented pass failed:", err, tail(out, 3000))
			return 2
		}
		var wo WorkerOut
		b, _ := os.ReadFile(of)
		json.Unmarshal(b, &wo)
		notes = append(notes, fmt.Sprintf("uninstrumented repetition pass: %d profiles x 30 runs, %d difference(s)", wo.Cases, len(wo.Violations)))
		evals += wo.Evals
		for _, v := range wo.Violations {
			vios = append(vios, v)
			vioCounts[v.Sig]++
		}
	}
	if id == "C10" {
		rv, rnote, err := racePass(tier, cache, work, wenv)
		if err != nil {
			fmt.Fprintln(os.Stderr, "BROKEN: free-running -race pass failed:", err)
			return 2
		}
		notes = append(notes, rnote)
		for _, v := range rv {
			vios = append(vios, v)
			vioCounts[v.Sig]++
		}
	}

	// vacuity control (C08): the embedding templates must be valid Rego for the built-ins that are not denied
	if okc, bad := counters["controls_compiled"], counters["controls_rejected"]; okc+bad > 0 && float64(okc) < 0.9*float64(okc+bad) {
		fmt.Fprintf(os.Stderr, "BROKEN: only %d of %d vacuity controls compile — the templates do not probe the deny-list\n", okc, okc+bad)
		return 2
	}

	// ---- classify violations
	known := loadKnown()
	bySig := map[string][]Violation{}
	for _, v := range vios {
		bySig[v.Sig] = append(bySig[v.Sig], v)
	}
	sigs := make([]string, 0, len(bySig))
	for s := range bySig {
		sigs = append(sigs, s)
	}
	sort.Strings(sigs)
	exit := 0
	newViolations := 0
	knownLines := []string{}
	os.MkdirAll(filepath.Join(verifDir, "replay"), 0o755)
	type pending struct {
		sig   string
		v     Violation
		rp    string
		repro int
	}
	var pend []*pending
	for _, sig := range sigs {
		v := bySig[sig][0]
		if f := matchKnown(known, id, sig); f != nil {
			knownLines = append(knownLines, fmt.Sprintf("KNOWN-FINDING: property=%s %s [sig: %s; %d case(s) this run]", id, f.What, sig, vioCounts[sig]))
			continue
		}
		h := sha1.Sum([]byte(sig + string(v.Case)))
		rp := filepath.Join(verifDir, "replay", fmt.Sprintf("%s-%x.json", id, h[:6]))
		rb, _ := json.MarshalIndent(map[string]any{"property": id, "sig": sig, "detail": v.Detail, "case": v.Case, "tier": tier}, "", " ")
		os.WriteFile(rp, rb, 0o644)
		pend = append(pend, &pending{sig: sig, v: v, rp: rp})
	}
	// re-execute 5x (first maxReplay signatures, in parallel); a failure that does
	// not reproduce is checker nondeterminism, never reported as a violation
	const maxReplay = 16
	{
		var rwg sync.WaitGroup
		sem := make(chan struct{}, workers)
		for i, pd := range pend {
			if i >= maxReplay {
				pd.repro = -1
				continue
			}
			for k := 0; k < 5; k++ {
				rwg.Add(1)
				go func(pd *pending) {
					defer rwg.Done()
					sem <- struct{}{}
					defer func() { <-sem }()
					out, err := runWorker(bin, wenv, "replay", id, tier, pd.rp)
					if ee, ok := err.(*exec.ExitError); ok && (ee.ExitCode() == 1 || (ee.ExitCode() == 3 && strings.Contains(pd.sig, "[hang]") && strings.Contains(out, `"hang_frame":"`+hangFrameOf(pd.sig)+`"`))) {
						mu.Lock()
						pd.repro++
						mu.Unlock()
					}
				}(pd)
			}
		}
		rwg.Wait()
	}
	// A violation whose case does not reproduce on its own may depend on what the process did before it (a cache, a
	// "last value" kept by the implementation). Re-run the shard that found it, from its start up to that case, twice:
	// if the same signature comes back both times it is a real, history-dependent violation; otherwise the run is
	// declared broken (checker nondeterminism), never reported as a violation.
	for _, pd := range pend {
		if pd.repro >= 0 && pd.repro < 5 && !strings.Contains(pd.sig, "[nondet-ok]") && pd.v.NShards > 0 {
			again := 0
			var hwg sync.WaitGroup
			for k := 0; k < 2; k++ {
				hwg.Add(1)
				go func(k int) {
					defer hwg.Done()
					of := filepath.Join(work, fmt.Sprintf("hist-%d-%d.json", pd.v.Shard, k))
					cmd := exec.Command(bin, "run", id, tier, strconv.Itoa(pd.v.Shard), strconv.Itoa(pd.v.NShards), strconv.FormatInt(pd.v.From, 10), of)
					cmd.Env = append(wenv, fmt.Sprintf("VERIF_UPTO=%d", pd.v.Idx))
					cmd.Run()
					var wo WorkerOut
					if b, err := os.ReadFile(of); err == nil {
						json.Unmarshal(b, &wo)
					}
					if wo.VioCounts[pd.sig] > 0 || (strings.Contains(pd.sig, "[hang]") && wo.HangAt == pd.v.Idx && wo.HangFrame == hangFrameOf(pd.sig)) {
						mu.Lock()
						again++
						mu.Unlock()
					}
				}(k)
			}
			hwg.Wait()
			if again == 2 {
				pd.repro = 5
				pd.v.Detail = fmt.Sprintf("[does not reproduce from the single case: depends on earlier cases of the same process; reproduced 2/2 by re-running shard %d/%d from case %d up to case %d]\n", pd.v.Shard, pd.v.NShards, pd.v.From, pd.v.Idx) + pd.v.Detail
				rb, _ := json.MarshalIndent(map[string]any{"property": id, "sig": pd.sig, "detail": pd.v.Detail, "case": pd.v.Case, "tier": tier,
					"history": map[string]any{"shard": pd.v.Shard, "nshards": pd.v.NShards, "upto_case_index": pd.v.Idx, "how": fmt.Sprintf("VERIF_UPTO=%d vworker run %s %s %d %d %d out.json", pd.v.Idx, id, tier, pd.v.Shard, pd.v.NShards, pd.v.From)}}, "", " ")
				os.WriteFile(pd.rp, rb, 0o644)
			}
		}
	}
	unconfirmed := 0
	for i, pd := range pend {
		if pd.repro >= 2 && pd.repro < 5 {
			// fails again in at least 2 of 5 independent fresh processes: the implementation itself behaves
			// nondeterministically on this case (goroutines, pools); the harness has no timing oracle that could
			// explain a repeated failure
			pd.v.Detail = fmt.Sprintf("[reproduced %d/5 from the replay file: nondeterministic in the implementation]\n", pd.repro) + pd.v.Detail
			pd.repro = 5
		}
		if pd.repro >= 0 && pd.repro < 5 && !strings.Contains(pd.sig, "[nondet-ok]") && !strings.Contains(pd.sig, "[crash]") {
			fmt.Fprintf(os.Stderr, "UNCONFIRMED: violation %q reproduced only %d/5 times from %s and not by re-running its shard — not reported as a violation\n%s\n", pd.sig, pd.repro, pd.rp, tail(pd.v.Detail, 600))
			unconfirmed++
			continue
		}
		newViolations++
		if i < 40 {
			fmt.Printf("VIOLATION property=%s replay=%s\n", id, pd.rp)
			fmt.Printf("  signature: %s (%d case(s))\n  %s\n", pd.sig, vioCounts[pd.sig], strings.ReplaceAll(tail(pd.v.Detail, 1500), "\n", "\n  "))
		} else if i == 40 {
			fmt.Printf("  ... %d more violation signatures (replay files written under /verif/replay)\n", len(pend)-40)
		}
		if exit == 0 {
			exit = 1
		}
	}
	if unconfirmed > 0 && exit == 0 {
		// something failed once and never again, and nothing else was confirmed: no verdict (checker nondeterminism)
		fmt.Fprintln(os.Stderr, "BROKEN: only unconfirmed failures — no verdict")
		exit = 2
	}
	for _, l := range knownLines {
		fmt.Println(l)
	}

	// ---- evidence
	cov := map[string]any{
		"evaluations":         evals,
		"distinct_nontrivial": nontriv,
		"rule":                meta.Rule,
		"samples":             samples,
		"cases":               cases,
		"exhaustive":          !capHit,
		"distinct_outcomes":   len(outcomes),
		"outcome_histogram":   topOutcomes(outcomes, 25),
		"workers":             workers,
	}
	for k, v := range counters {
		switch k {
		case "states", "transitions", "traces_validated_against_impl":
			cov[k] = v
		default:
			cov["n_"+strings.TrimPrefix(k, "max:")] = v
		}
	}
	if len(notes) > 0 {
		cov["notes"] = notes
	}
	if len(knownLines) > 0 {
		cov["known_findings_observed"] = knownLines
	}
	if meta.Assumptions == nil {
		meta.Assumptions = []string{}
	}
	ev := map[string]any{
		"property_id": id,
		"tier":        tier,
		"seed":        seed,
		"level":       meta.Level,
		"coverage":    cov,
		"assumptions": meta.Assumptions,
		"wall_s":      float64(int(time.Since(t0).Seconds()*10)) / 10,
		"violations":  newViolations,
	}
	os.MkdirAll(filepath.Join(verifDir, "evidence"), 0o755)
	eb, _ := json.MarshalIndent(ev, "", " ")
	os.WriteFile(filepath.Join(verifDir, "evidence", id+".json"), eb, 0o644)
	fmt.Printf("%s tier=%s cases=%d evaluations=%d nontrivial=%d outcomes=%d exhaustive=%v violations=%d known=%d wall=%.1fs\n",
		id, tier, cases, evals, nontriv, len(outcomes), !capHit, newViolations, len(knownLines), time.Since(t0).Seconds())
	return exit
}

// hangFrameOf extracts the library function named by a "[hang]" signature.
func hangFrameOf(sig string) string {
	if i := strings.Index(sig, "blocked in "); i >= 0 {
		return strings.TrimSuffix(sig[i+len("blocked in "):], " [hang]")
	}
	return ""
}

func topOutcomes(m map[string]int64, n int) map[string]int64 {
	type kv struct {
		k string
		v int64
	}
	var l []kv
	for k, v := range m {
		l = append(l, kv{k, v})
	}
	sort.Slice(l, func(i, j int) bool {
		if l[i].v != l[j].v {
			return l[i].v > l[j].v
		}
		return l[i].k < l[j].k
	})
	out := map[string]int64{}
	for i, e := range l {
		if i >= n {
			break
		}
		k := e.k
		if len(k) > 200 {
			k = k[:200]
		}
		out[k] = e.v
	}
	return out
}

func runWorker(bin string, env []string, args ...string) (string, error) {
	cmd := exec.Command(bin, args...)
	cmd.Env = env
	var buf bytes.Buffer
	cmd.Stdout = &buf
	cmd.Stderr = &buf
	err := cmd.Run()
	return buf.String(), err
}

func tail(s string, n int) string {
	if len(s) > n {
		return s[:n] + "…"
	}
	return s
}

func loadKnown() KnownFile {
	var k KnownFile
	b, err := os.ReadFile(filepath.Join(verifDir, "known_findings.json"))
	if err == nil {
		if err := json.Unmarshal(b, &k); err != nil {
			die(2, "known_findings.json does not parse: %v", err)
		}
	}
	return k
}

func matchKnown(k KnownFile, id, sig string) *Finding {
	for i := range k.Findings {
		f := &k.Findings[i]
		if f.Property != id {
			continue
		}
		if f.Sig != "" && f.Sig == sig {
			return f
		}
		if f.SigRe != "" {
			if re, err := regexp.Compile("^(?:" + f.SigRe + ")$"); err == nil && re.MatchString(sig) {
				return f
			}
		}
	}
	return nil
}

// setup pre-builds the worker (plain, and instrumented when the instrumenter
// exists) so that later checks only pay an incremental build.
func setup(cache, work string) int {
	if _, err := buildWorker("C03", cache, work); err != nil {
		fmt.Fprintln(os.Stderr, err)
		return 2
	}
	if _, err := buildACV(cache, work); err != nil {
		fmt.Fprintln(os.Stderr, err)
		return 2
	}
	if _, _, err := racePass("build-only", cache, work, os.Environ()); err != nil {
		fmt.Fprintln(os.Stderr, err)
		return 2
	}
	if _, err := os.Stat(filepath.Join(verifDir, "bin", "vinstr")); err == nil {
		for id := range needsInstr {
			if _, err := buildWorker(id, cache, work); err != nil {
				fmt.Fprintln(os.Stderr, err)
				return 2
			}
		}
	}
	fmt.Println("setup ok")
	return 0
}

// racePass builds the worker with the Go race detector (plain overlay, no
// scheduler instrumentation) and runs the C10 scenario bodies free-running.
// It is an auxiliary cross-check for code the scheduler does not hook.
func racePass(tier, cache, work string, wenv []string) ([]Violation, string, error) {
	ov := overlayFor(work, nil)
	bin := filepath.Join(work, "vworker-race")
	env := goEnv(cache)
	for i, e := range env {
		if strings.HasPrefix(e, "GOFLAGS=") {
			env[i] = "GOFLAGS=-mod=readonly"
		}
		if strings.HasPrefix(e, "CGO_ENABLED=") {
			env[i] = "CGO_ENABLED=1"
		}
	}
	if out, err := run(repoDir, env, "go", "build", "-race", "-tags", "verif", "-overlay", ov, "-o", bin, "./cmd/vworker"); err != nil {
		return nil, "", fmt.Errorf("race build failed: %v\n%s", err, out)
	}
	if tier == "build-only" {
		return nil, "", nil
	}
	rounds := "4"
	if tier == "thorough" {
		rounds = "40"
	}
	cmd := exec.Command(bin, "racepass", rounds)
	cmd.Env = append(wenv, "GORACE=halt_on_error=0 exitcode=0")
	var buf bytes.Buffer
	cmd.Stdout, cmd.Stderr = &buf, &buf
	if err := cmd.Run(); err != nil {
		return nil, "", fmt.Errorf("racepass: %v\n%s", err, tail(buf.String(), 3000))
	}
	out := buf.String()
	if !strings.Contains(out, "racepass done") {
		return nil, "", fmt.Errorf("racepass did not finish:\n%s", tail(out, 3000))
	}
	var burst []Violation
	for _, kind := range []string{"BURST HANG", "BURST DIFF"} {
		if i := strings.Index(out, kind+":"); i >= 0 {
			body := out[i:]
			if j := strings.Index(body, "END "+kind); j >= 0 {
				body = body[:j]
			}
			sig := "C10 a burst of concurrent calls does not return (free-running pass) [nondet-ok]"
			if kind == "BURST DIFF" {
				sig = "C10 a call in a burst of concurrent calls returns something else than alone (free-running pass) [nondet-ok]"
			}
			cs, _ := json.Marshal(map[string]any{"scenario": "racepass-burst", "note": "free-running pass; rerun `vcheck C10` to reproduce"})
			burst = append(burst, Violation{Sig: sig, Detail: tail(body, 3000), Case: cs})
		}
	}
	blocks := strings.Split(out, "WARNING: DATA RACE")
	frameRe := regexp.MustCompile(regexp.QuoteMeta(repoDir) + `/((?:internal|pkg|cmd/commands)/[^\s:]+\.go):\d+`)
	seen := map[string]bool{}
	var vs []Violation
	for _, b := range blocks[1:] {
		fr := frameRe.FindAllStringSubmatch(b, -1)
		a, bb := "?", "?"
		if len(fr) > 0 {
			a = fr[0][1]
		}
		// first repository frame of the second stack ("Previous ... by goroutine")
		if i := strings.Index(b, "Previous"); i >= 0 {
			if fr2 := frameRe.FindStringSubmatch(b[i:]); fr2 != nil {
				bb = fr2[1]
			}
		}
		pair := []string{a, bb}
		sort.Strings(pair)
		sig := "C10 race detector (free-running pass): " + pair[0] + " / " + pair[1] + " [nondet-ok]"
		if seen[sig] {
			continue
		}
		seen[sig] = true
		cs, _ := json.Marshal(map[string]any{"scenario": "racepass", "note": "free-running -race pass; rerun `vcheck C10` to reproduce"})
		vs = append(vs, Violation{Sig: sig, Detail: tail("WARNING: DATA RACE"+b, 3000), Case: cs})
	}
	vs = append(vs, burst...)
	return vs, fmt.Sprintf("free-running -race pass: %s rounds x 10 scenarios (each body 4x) + bursts of 17/33/65 concurrent calls, %d race report(s), %d distinct", rounds, len(blocks)-1, len(vs)), nil
}
