#!/bin/sh
# development helper: build the worker once into bin/vworker-dev
# DEV_REPO selects the tree to build against (default /repo; a private worktree while /repo is busy)
DEV_REPO=${DEV_REPO:-/repo}
export DEV_REPO
cd /verif && python3 - <<'PY'
import json,os
R=os.environ['DEV_REPO']
repl={}
for root,_,files in os.walk('/verif/overlay'):
    for f in files:
        if f.endswith('.go'):
            p=os.path.join(root,f); rel=os.path.relpath(p,'/verif/overlay')
            dst=R+'/cmd/'+rel if rel.startswith('vworker/') else R+'/'+rel
            repl[dst]=p
os.makedirs('/verif/.work',exist_ok=True)
json.dump({"Replace":repl},open('/verif/.work/dev-overlay.json','w'))
PY
cd $DEV_REPO && GOFLAGS=-mod=readonly GOPROXY=off GOSUMDB=off GOTOOLCHAIN=local GOCACHE=/verif/.cache/go-build CGO_ENABLED=0 go build -tags verif -overlay /verif/.work/dev-overlay.json -o /verif/bin/vworker-dev ./cmd/vworker
