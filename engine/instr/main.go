// vinstr type-checks the repository's non-test packages from the current
// working tree and writes instrumented copies of its files plus a replace.json
// for `go build -overlay`:
//
//   - every read/write of a package-level variable of the repository is
//     preceded by verifrt.Access(var, site, write, mutable); read-modify-write
//     statements (x.f++, x op= e) are split into load → point → store;
//   - every `range` over a map is rewritten to iterate in the order dictated
//     by verifrt.Order(site, m);
//   - imports of "sync" are redirected to verifrt/vsync.
//
// The list of instrumented sites is written to sites.json (printed in the
// evidence so a reader can see every source of nondeterminism is owned).
package main

import (
	"bytes"
	"encoding/json"
	"flag"
	"fmt"
	"go/ast"
	"go/format"
	"go/token"
	"go/types"
	"os"
	"path/filepath"
	"sort"
	"strconv"
	"strings"

	"golang.org/x/tools/go/ast/astutil"
	"golang.org/x/tools/go/packages"
)

const mod = "github.com/aml-org/amf-custom-validator"

type site struct {
	Kind string `json:"kind"` // access | rmw | maprange | sync-import | maprange-skipped
	File string `json:"file"`
	Line int    `json:"line"`
	What string `json:"what"`
}

func main() {
	out := flag.String("out", "", "output directory")
	_ = flag.String("mode", "", "unused")
	flag.Parse()
	if *out == "" {
		fmt.Fprintln(os.Stderr, "usage: vinstr -out DIR  (run in /repo)")
		os.Exit(2)
	}
	os.MkdirAll(*out, 0o755)
	cfg := &packages.Config{
		Mode: packages.NeedName | packages.NeedFiles | packages.NeedCompiledGoFiles | packages.NeedSyntax | packages.NeedTypes | packages.NeedTypesInfo | packages.NeedImports | packages.NeedDeps,
		Dir:  ".",
		Env:  append(os.Environ(), "GOFLAGS=-mod=readonly"),
	}
	pkgs, err := packages.Load(cfg, "./internal/...", "./pkg/...", "./cmd/...")
	if err != nil {
		fmt.Fprintln(os.Stderr, "load:", err)
		os.Exit(2)
	}
	bad := false
	for _, p := range pkgs {
		for _, e := range p.Errors {
			fmt.Fprintln(os.Stderr, "package error:", e)
			bad = true
		}
	}
	if bad {
		os.Exit(2)
	}
	// pass 1: which package-level variables are ever written / have their address taken
	mutable := map[*types.Var]bool{}
	isGlobal := func(info *types.Info, id *ast.Ident) *types.Var {
		obj := info.Uses[id]
		if obj == nil {
			obj = info.Defs[id]
		}
		v, ok := obj.(*types.Var)
		if !ok || v.IsField() || v.Pkg() == nil || !strings.HasPrefix(v.Pkg().Path(), mod) {
			return nil
		}
		if v.Parent() != v.Pkg().Scope() {
			return nil
		}
		return v
	}
	rootIdent := func(e ast.Expr) *ast.Ident {
		for {
			switch x := e.(type) {
			case *ast.Ident:
				return x
			case *ast.SelectorExpr:
				// pkg.Var or expr.field
				if id, ok := x.X.(*ast.Ident); ok {
					_ = id
				}
				// qualified identifier pkg.Var: Sel is the var
				e = x.X
				if _, ok := x.X.(*ast.Ident); ok {
					// could be package name: handled by caller through Sel
					return x.Sel
				}
			case *ast.IndexExpr:
				e = x.X
			case *ast.StarExpr:
				e = x.X
			case *ast.ParenExpr:
				e = x.X
			default:
				return nil
			}
		}
	}
	// globalOf finds the package-level variable an lvalue/operand expression is rooted in
	var globalOf func(info *types.Info, e ast.Expr) *types.Var
	globalOf = func(info *types.Info, e ast.Expr) *types.Var {
		switch x := e.(type) {
		case *ast.Ident:
			return isGlobal(info, x)
		case *ast.SelectorExpr:
			if id, ok := x.X.(*ast.Ident); ok {
				if _, isPkg := info.Uses[id].(*types.PkgName); isPkg {
					return isGlobal(info, x.Sel)
				}
			}
			return globalOf(info, x.X)
		case *ast.IndexExpr:
			return globalOf(info, x.X)
		case *ast.StarExpr:
			return globalOf(info, x.X)
		case *ast.ParenExpr:
			return globalOf(info, x.X)
		}
		return nil
	}
	_ = rootIdent
	for _, p := range pkgs {
		if strings.Contains(p.PkgPath, "/verifx") || strings.Contains(p.PkgPath, "/verifrt") {
			continue
		}
		for _, f := range p.Syntax {
			ast.Inspect(f, func(n ast.Node) bool {
				switch s := n.(type) {
				case *ast.AssignStmt:
					for _, l := range s.Lhs {
						if v := globalOf(p.TypesInfo, l); v != nil && s.Tok != token.DEFINE {
							mutable[v] = true
						}
					}
				case *ast.IncDecStmt:
					if v := globalOf(p.TypesInfo, s.X); v != nil {
						mutable[v] = true
					}
				case *ast.UnaryExpr:
					if s.Op == token.AND {
						if v := globalOf(p.TypesInfo, s.X); v != nil {
							mutable[v] = true
						}
					}
				}
				return true
			})
		}
	}

	var sites []site
	replace := map[string]string{}
	cwd, _ := os.Getwd()
	for _, p := range pkgs {
		if strings.Contains(p.PkgPath, "/verifx") || strings.Contains(p.PkgPath, "/verifrt") || strings.HasSuffix(p.PkgPath, "/cmd/vworker") {
			continue
		}
		info := p.TypesInfo
		for fi, f := range p.Syntax {
			fname := p.CompiledGoFiles[fi]
			if strings.HasSuffix(fname, "_test.go") {
				continue
			}
			rel, _ := filepath.Rel(cwd, fname)
			changed := false
			needRT := false
			tmpN := 0
			pos := func(n ast.Node) (string, int) {
				ps := p.Fset.Position(n.Pos())
				return rel, ps.Line
			}
			// globals read in an expression (not descending into function literals)
			var reads func(e ast.Node, acc map[*types.Var]bool)
			reads = func(e ast.Node, acc map[*types.Var]bool) {
				if e == nil {
					return
				}
				ast.Inspect(e, func(n ast.Node) bool {
					switch x := n.(type) {
					case *ast.FuncLit:
						return false
					case *ast.BlockStmt:
						return false
					case *ast.Ident:
						if v := isGlobal(info, x); v != nil && info.Uses[x] != nil {
							acc[v] = true
						}
					}
					return true
				})
			}
			accessCall := func(v *types.Var, n ast.Node, write bool) ast.Stmt {
				needRT = true
				file, line := pos(n)
				name := shortPkg(v.Pkg().Path()) + "." + v.Name()
				return &ast.ExprStmt{X: &ast.CallExpr{
					Fun: &ast.SelectorExpr{X: ast.NewIdent("verifrt"), Sel: ast.NewIdent("Access")},
					Args: []ast.Expr{
						&ast.BasicLit{Kind: token.STRING, Value: strconv.Quote(name)},
						&ast.BasicLit{Kind: token.STRING, Value: strconv.Quote(fmt.Sprintf("%s:%d", file, line))},
						ast.NewIdent(fmt.Sprint(write)),
						ast.NewIdent(fmt.Sprint(mutable[v])),
					},
				}}
			}
			inList := func(c *astutil.Cursor) bool { return c.Index() >= 0 }
			// `go f(a, b)`  ->  { vrtGoFn := f; vrtGoA1, vrtGoA2 := a, b; verifrt.Go(func() { vrtGoFn(vrtGoA1, vrtGoA2) }) }
			// (function value and arguments are evaluated at the go statement, as the language prescribes)
			astutil.Apply(f, func(c *astutil.Cursor) bool {
				gs, ok := c.Node().(*ast.GoStmt)
				if !ok {
					return true
				}
				file, line := pos(gs)
				skip := !inList(c)
				for _, a := range gs.Call.Args {
					if tv, ok := info.Types[a]; ok {
						if _, isTuple := tv.Type.(*types.Tuple); isTuple {
							skip = true
						}
					}
				}
				if skip {
					sites = append(sites, site{"go-skipped", file, line, exprString(p.Fset, gs.Call.Fun)})
					return true
				}
				tmpN++
				fn := ast.NewIdent(fmt.Sprintf("vrtGoFn%d", tmpN))
				stmts := []ast.Stmt{&ast.AssignStmt{Lhs: []ast.Expr{fn}, Tok: token.DEFINE, Rhs: []ast.Expr{gs.Call.Fun}}}
				var argIds []ast.Expr
				for i := range gs.Call.Args {
					argIds = append(argIds, ast.NewIdent(fmt.Sprintf("vrtGoA%d_%d", tmpN, i)))
				}
				if len(argIds) > 0 {
					stmts = append(stmts, &ast.AssignStmt{Lhs: argIds, Tok: token.DEFINE, Rhs: gs.Call.Args})
				}
				inner := &ast.CallExpr{Fun: fn, Args: argIds, Ellipsis: gs.Call.Ellipsis}
				if gs.Call.Ellipsis != token.NoPos {
					inner.Ellipsis = 1
				}
				stmts = append(stmts, &ast.ExprStmt{X: &ast.CallExpr{
					Fun:  &ast.SelectorExpr{X: ast.NewIdent("verifrt"), Sel: ast.NewIdent("Go")},
					Args: []ast.Expr{&ast.FuncLit{Type: &ast.FuncType{Params: &ast.FieldList{}}, Body: &ast.BlockStmt{List: []ast.Stmt{&ast.ExprStmt{X: inner}}}}},
				}})
				sites = append(sites, site{"go", file, line, exprString(p.Fset, gs.Call.Fun)})
				c.Replace(&ast.BlockStmt{List: stmts})
				needRT, changed = true, true
				return true
			}, nil)
			astutil.Apply(f, func(c *astutil.Cursor) bool {
				n := c.Node()
				stmt, ok := n.(ast.Stmt)
				if !ok || !inList(c) {
					return true
				}
				switch s := stmt.(type) {
				case *ast.IncDecStmt:
					if v := globalOf(info, s.X); v != nil {
						tmpN++
						tmp := ast.NewIdent(fmt.Sprintf("vrtTmp%d", tmpN))
						op := token.ADD
						if s.Tok == token.DEC {
							op = token.SUB
						}
						file, line := pos(s)
						sites = append(sites, site{"rmw", file, line, shortPkg(v.Pkg().Path()) + "." + v.Name()})
						c.Replace(&ast.BlockStmt{List: []ast.Stmt{
							accessCall(v, s, false),
							&ast.AssignStmt{Lhs: []ast.Expr{tmp}, Tok: token.DEFINE, Rhs: []ast.Expr{s.X}},
							accessCall(v, s, true),
							&ast.AssignStmt{Lhs: []ast.Expr{s.X}, Tok: token.ASSIGN, Rhs: []ast.Expr{&ast.BinaryExpr{X: tmp, Op: op, Y: &ast.BasicLit{Kind: token.INT, Value: "1"}}}},
						}})
						changed = true
						return false
					}
				case *ast.AssignStmt:
					var wv *types.Var
					if s.Tok != token.DEFINE {
						for _, l := range s.Lhs {
							if v := globalOf(info, l); v != nil {
								wv = v
							}
						}
					}
					if wv != nil && s.Tok != token.ASSIGN && len(s.Lhs) == 1 {
						// x op= e  →  load, point, store
						binop := map[token.Token]token.Token{token.ADD_ASSIGN: token.ADD, token.SUB_ASSIGN: token.SUB, token.MUL_ASSIGN: token.MUL, token.QUO_ASSIGN: token.QUO, token.REM_ASSIGN: token.REM, token.OR_ASSIGN: token.OR, token.AND_ASSIGN: token.AND, token.XOR_ASSIGN: token.XOR, token.SHL_ASSIGN: token.SHL, token.SHR_ASSIGN: token.SHR, token.AND_NOT_ASSIGN: token.AND_NOT}[s.Tok]
						tmpN++
						tmp := ast.NewIdent(fmt.Sprintf("vrtTmp%d", tmpN))
						file, line := pos(s)
						sites = append(sites, site{"rmw", file, line, shortPkg(wv.Pkg().Path()) + "." + wv.Name()})
						c.Replace(&ast.BlockStmt{List: []ast.Stmt{
							accessCall(wv, s, false),
							&ast.AssignStmt{Lhs: []ast.Expr{tmp}, Tok: token.DEFINE, Rhs: []ast.Expr{s.Lhs[0]}},
							accessCall(wv, s, true),
							&ast.AssignStmt{Lhs: []ast.Expr{s.Lhs[0]}, Tok: token.ASSIGN, Rhs: []ast.Expr{&ast.BinaryExpr{X: tmp, Op: binop, Y: &ast.ParenExpr{X: s.Rhs[0]}}}},
						}})
						changed = true
						return false
					}
				}
				// generic: accesses in the statement's own expressions
				acc := map[*types.Var]bool{}
				writes := map[*types.Var]bool{}
				switch s := stmt.(type) {
				case *ast.IfStmt:
					reads(s.Init, acc)
					reads(s.Cond, acc)
				case *ast.ForStmt:
					reads(s.Init, acc)
					reads(s.Cond, acc)
					reads(s.Post, acc)
				case *ast.RangeStmt:
					reads(s.X, acc)
				case *ast.SwitchStmt:
					reads(s.Init, acc)
					reads(s.Tag, acc)
				case *ast.TypeSwitchStmt:
					reads(s.Init, acc)
					reads(s.Assign, acc)
				case *ast.BlockStmt, *ast.LabeledStmt, *ast.SelectStmt, *ast.CaseClause, *ast.CommClause:
				case *ast.AssignStmt:
					if s.Tok != token.DEFINE {
						for _, l := range s.Lhs {
							if v := globalOf(info, l); v != nil {
								writes[v] = true
							}
						}
					}
					for _, r := range s.Rhs {
						reads(r, acc)
					}
					for _, l := range s.Lhs {
						if _, isId := l.(*ast.Ident); !isId {
							reads(l, acc)
						}
					}
				default:
					reads(stmt, acc)
				}
				var vs []*types.Var
				for v := range acc {
					vs = append(vs, v)
				}
				for v := range writes {
					if !acc[v] {
						vs = append(vs, v)
					}
				}
				sort.Slice(vs, func(i, j int) bool { return vs[i].Name() < vs[j].Name() })
				for _, v := range vs {
					w := writes[v]
					file, line := pos(stmt)
					sites = append(sites, site{"access", file, line, fmt.Sprintf("%s.%s write=%v mutable=%v", shortPkg(v.Pkg().Path()), v.Name(), w, mutable[v])})
					c.InsertBefore(accessCall(v, stmt, w))
					changed = true
				}
				return true
			}, nil)

			// map ranges
			astutil.Apply(f, func(c *astutil.Cursor) bool {
				rs, ok := c.Node().(*ast.RangeStmt)
				if !ok {
					return true
				}
				tv, ok := info.Types[rs.X]
				if !ok {
					return true
				}
				if _, isMap := tv.Type.Underlying().(*types.Map); !isMap {
					return true
				}
				file, line := pos(rs)
				if !simpleExpr(rs.X) {
					sites = append(sites, site{"maprange-skipped", file, line, exprString(p.Fset, rs.X)})
					return true
				}
				sites = append(sites, site{"maprange", file, line, exprString(p.Fset, rs.X)})
				needRT = true
				changed = true
				siteLit := &ast.BasicLit{Kind: token.STRING, Value: strconv.Quote(fmt.Sprintf("%s:%d", file, line))}
				order := &ast.CallExpr{Fun: &ast.SelectorExpr{X: ast.NewIdent("verifrt"), Sel: ast.NewIdent("Order")}, Args: []ast.Expr{siteLit, rs.X}}
				var keyExpr ast.Expr
				keyTok := rs.Tok
				if rs.Key == nil || isBlank(rs.Key) {
					tmpN++
					keyExpr = ast.NewIdent(fmt.Sprintf("vrtKey%d", tmpN))
					keyTok = token.DEFINE
				} else {
					keyExpr = rs.Key
				}
				var pre []ast.Stmt
				if rs.Value != nil && !isBlank(rs.Value) {
					pre = append(pre, &ast.AssignStmt{Lhs: []ast.Expr{rs.Value}, Tok: rs.Tok, Rhs: []ast.Expr{&ast.IndexExpr{X: rs.X, Index: keyExpr}}})
					if rs.Tok == token.DEFINE {
						// avoid "declared and not used" when the body ignores the value
						pre = append(pre, &ast.AssignStmt{Lhs: []ast.Expr{ast.NewIdent("_")}, Tok: token.ASSIGN, Rhs: []ast.Expr{rs.Value}})
					}
				}
				if rs.Tok == token.ASSIGN && keyTok == token.DEFINE {
					// value assigned with '=', key is our fresh variable
				}
				newRange := &ast.RangeStmt{
					Key:   ast.NewIdent("_"),
					Value: keyExpr,
					Tok:   keyTok,
					X:     order,
					Body:  &ast.BlockStmt{List: append(pre, rs.Body.List...)},
				}
				if keyTok == token.ASSIGN {
					// `for _, k = range` is legal
				}
				c.Replace(newRange)
				return true
			}, nil)

			// wall clock seam: time.Now() -> verifrt.Now()
			timeRewritten := false
			astutil.Apply(f, func(c *astutil.Cursor) bool {
				call, ok := c.Node().(*ast.CallExpr)
				if !ok || len(call.Args) != 0 {
					return true
				}
				sel, ok := call.Fun.(*ast.SelectorExpr)
				if !ok || sel.Sel.Name != "Now" {
					return true
				}
				id, ok := sel.X.(*ast.Ident)
				if !ok {
					return true
				}
				pn, ok := info.Uses[id].(*types.PkgName)
				if !ok || pn.Imported().Path() != "time" {
					return true
				}
				file, line := pos(call)
				sites = append(sites, site{"time-now", file, line, "time.Now() -> verifrt.Now()"})
				call.Fun = &ast.SelectorExpr{X: ast.NewIdent("verifrt"), Sel: ast.NewIdent("Now")}
				needRT, changed, timeRewritten = true, true, true
				return true
			}, nil)
			if timeRewritten && !astutil.UsesImport(f, "time") {
				astutil.DeleteImport(p.Fset, f, "time")
			}

			// sync import redirect
			for _, imp := range f.Imports {
				if imp.Path.Value == `"sync/atomic"` && !strings.HasSuffix(rel, "peg.go") {
					imp.Path.Value = strconv.Quote(mod + "/verifrt/vatomic")
					if imp.Name == nil {
						imp.Name = ast.NewIdent("atomic")
					}
					file, line := pos(imp)
					sites = append(sites, site{"sync-import", file, line, "sync/atomic -> verifrt/vatomic"})
					changed = true
				}
				if imp.Path.Value == `"sync"` && !strings.HasSuffix(rel, "peg.go") {
					imp.Path.Value = strconv.Quote(mod + "/verifrt/vsync")
					if imp.Name == nil {
						imp.Name = ast.NewIdent("sync")
					}
					file, line := pos(imp)
					sites = append(sites, site{"sync-import", file, line, "sync -> verifrt/vsync"})
					changed = true
				}
			}
			if !changed {
				continue
			}
			if needRT {
				astutil.AddImport(p.Fset, f, mod+"/verifrt")
			}
			var buf bytes.Buffer
			if err := format.Node(&buf, p.Fset, f); err != nil {
				fmt.Fprintln(os.Stderr, "format", rel, err)
				os.Exit(2)
			}
			src := buf.String()
			dst := filepath.Join(*out, strings.ReplaceAll(rel, "/", "__"))
			if err := os.WriteFile(dst, []byte(src), 0o644); err != nil {
				fmt.Fprintln(os.Stderr, err)
				os.Exit(2)
			}
			replace[fname] = dst
		}
	}
	b, _ := json.MarshalIndent(replace, "", " ")
	os.WriteFile(filepath.Join(*out, "replace.json"), b, 0o644)
	sort.Slice(sites, func(i, j int) bool {
		if sites[i].File != sites[j].File {
			return sites[i].File < sites[j].File
		}
		return sites[i].Line < sites[j].Line
	})
	sb, _ := json.MarshalIndent(sites, "", " ")
	os.WriteFile(filepath.Join(*out, "sites.json"), sb, 0o644)
	fmt.Printf("vinstr: %d files instrumented, %d sites\n", len(replace), len(sites))
}

func stripBuildTags(s string) string { return s }

func shortPkg(p string) string {
	return strings.TrimPrefix(strings.TrimPrefix(p, mod), "/")
}

func isBlank(e ast.Expr) bool {
	id, ok := e.(*ast.Ident)
	return ok && id.Name == "_"
}

func simpleExpr(e ast.Expr) bool {
	switch x := e.(type) {
	case *ast.Ident:
		return true
	case *ast.SelectorExpr:
		return simpleExpr(x.X)
	case *ast.StarExpr:
		return simpleExpr(x.X)
	case *ast.ParenExpr:
		return simpleExpr(x.X)
	}
	return false
}

func exprString(fset *token.FileSet, e ast.Expr) string {
	var b bytes.Buffer
	format.Node(&b, fset, e)
	return b.String()
}
