#!/bin/sh
# run every registered quick (or $1=thorough) check on the current tree and print one line each
tier=${1:-quick}
cd /verif
fail=0
for id in $(python3 -c "import json;print(' '.join(c['property_id'] for c in json.load(open('MANIFEST.json'))['checks']))"); do
  out=$(./bin/vcheck $id --tier $tier 2>&1); rc=$?
  echo "$id exit=$rc $(echo "$out" | grep "^$id tier=" | tail -1)"
  if [ $rc -ne 0 ]; then fail=1; echo "$out" | grep -E "VIOLATION|BROKEN|signature" | head -5; fi
done
python3-vt validate_schemas.py | tail -1
exit $fail
